(* Round trip of the directory-manifest JSON codec (src/cache: directoryManifest,
   commitDirManifest / readDirManifest / validateDirManifest; src/artifact: Artifact json tags and
   UnmarshalJSON with the old-schema fallback):

     dec_enc_manifest     dec_manifest (enc_manifest m) = Some m            for wf_manifest m
     dec_enc_manifest_any the same for unsorted contents, result = sort_kv of the contents
     enc_manifest_inj     enc_manifest is injective on well-formed manifests
     old_schema_equiv     (C20) a manifest written with the old schema decodes to the same value
     enc_manifest_perm    the encoding does not depend on the listing order of the entries

   No axioms; every theorem is followed by Print Assumptions. *)
From Coq Require Import String ZArith NArith List Lia Bool Permutation ZifyBool ZifyN ZifyNat.
From DudV Require Import Base.Bytes Base.JsonStr Base.Json Model.Cache Proofs.JsonStrRT.
Import ListNotations.
Local Open Scope N_scope.

(* ------------------------------------------------------------------------------------------ *)
(* Well-formedness                                                                             *)
(* ------------------------------------------------------------------------------------------ *)

(* valid UTF-8 made of bytes: what Go's encoder writes unchanged and its decoder reads back *)
Definition okstr (s : bytes) : Prop := valid (length s) s = true /\ bytes_ok s.
Definition okb (s : bytes) : bool := valid (length s) s && wf_bytes s.

Lemma wf_bytes_ok s : wf_bytes s = true -> bytes_ok s.
Proof.
  unfold wf_bytes, bytes_ok. induction s as [|b r IH]; intros Hs; [constructor|].
  cbn [forallb] in Hs. apply andb_true_iff in Hs as [Hb Hr].
  constructor; [unfold is_byte in Hb; lia | exact (IH Hr)].
Qed.

Lemma okb_ok s : okb s = true -> okstr s.
Proof.
  unfold okb, okstr. intros Hs. apply andb_true_iff in Hs as [Hv Hw].
  split; [exact Hv | exact (wf_bytes_ok s Hw)].
Qed.

(* strictly increasing keys (every key smaller than all later keys): the shape sort_kv produces *)
Definition keys_gt {A} (k : bytes) (l : list (bytes * A)) : bool :=
  forallb (fun kv => bltb k (fst kv)) l.
Fixpoint ssorted {A} (l : list (bytes * A)) : bool :=
  match l with
  | [] => true
  | kv :: r => keys_gt (fst kv) r && ssorted r
  end.

(* one entry: key = path, a single path component, key and checksum valid UTF-8.
   (No condition on the three flags is needed.) *)
Definition wf_entry (kv : bytes * artifact) : bool :=
  beqb (a_path (snd kv)) (fst kv) && valid_entry_name (fst kv) && okb (fst kv) && okb (a_cs (snd kv)).

Definition wf_entries (l : list (bytes * artifact)) : bool := forallb wf_entry l.

Definition wf_manifest (m : manifest) : bool :=
  okb (m_path m) && ssorted (m_contents m) && wf_entries (m_contents m).

(* ------------------------------------------------------------------------------------------ *)
(* Order facts on byte strings, sort_kv                                                        *)
(* ------------------------------------------------------------------------------------------ *)

Lemma bltb_irrefl a : bltb a a = false.
Proof.
  induction a as [|x a IH]; [reflexivity|]. cbn [bltb].
  replace (x <? x) with false by lia. exact IH.
Qed.

Lemma bltb_asym a : forall b, bltb a b = true -> bltb b a = false.
Proof.
  induction a as [|x a IH]; intros [|y b] Hab; cbn [bltb] in *; try reflexivity; try discriminate.
  destruct (x <? y) eqn:Exy.
  - replace (y <? x) with false by lia. reflexivity.
  - destruct (y <? x) eqn:Eyx; [discriminate|]. apply IH. exact Hab.
Qed.

Lemma bltb_neq a b : bltb a b = true -> beqb b a = false.
Proof.
  intros Hab. destruct (beqb b a) eqn:E; [|reflexivity].
  apply beqb_eq in E. subst b. rewrite bltb_irrefl in Hab. discriminate.
Qed.

Lemma bltb_trans a : forall b c, bltb a b = true -> bltb b c = true -> bltb a c = true.
Proof.
  induction a as [|x a IH]; intros [|y b] [|z c] Hab Hbc; cbn [bltb] in *;
    try reflexivity; try discriminate.
  destruct (x <? y) eqn:Exy.
  - destruct (y <? z) eqn:Eyz.
    + replace (x <? z) with true by lia. reflexivity.
    + destruct (z <? y) eqn:Ezy; [discriminate|].
      replace (x <? z) with true by lia. reflexivity.
  - destruct (y <? x) eqn:Eyx; [discriminate|].
    destruct (y <? z) eqn:Eyz.
    + replace (x <? z) with true by lia. reflexivity.
    + destruct (z <? y) eqn:Ezy; [discriminate|].
      replace (x <? z) with false by lia. replace (z <? x) with false by lia.
      exact (IH _ _ Hab Hbc).
Qed.

(* trichotomy *)
Lemma bltb_total a : forall b, beqb a b = false -> bltb a b = false -> bltb b a = true.
Proof.
  induction a as [|x a IH]; intros [|y b] Hne Hnl; cbn [bltb beqb] in *;
    try reflexivity; try discriminate.
  destruct (x <? y) eqn:Exy; [discriminate|].
  destruct (y <? x) eqn:Eyx; [reflexivity|].
  replace (x =? y) with true in Hne by lia. cbn [andb] in Hne.
  exact (IH _ Hne Hnl).
Qed.

Lemma ins_sorted_last {A} k (v : A) l :
  (forall kv, In kv l -> bltb (fst kv) k = true) -> ins_sorted k v l = l ++ [(k, v)].
Proof.
  induction l as [|[k' v'] r IH]; intros Hl; [reflexivity|].
  cbn [ins_sorted app].
  assert (Hk : bltb k' k = true) by (apply (Hl (k', v')); left; reflexivity).
  rewrite (bltb_neq _ _ Hk), (bltb_asym _ _ Hk).
  f_equal. apply IH. intros kv Hin. apply Hl. right. exact Hin.
Qed.

Lemma ssorted_app_lt {A} (l1 l2 : list (bytes * A)) :
  ssorted (l1 ++ l2) = true ->
  forall x y, In x l1 -> In y l2 -> bltb (fst x) (fst y) = true.
Proof.
  induction l1 as [|kv r IH]; intros Hs x y Hx Hy; [destruct Hx|].
  cbn [app ssorted] in Hs. apply andb_true_iff in Hs as [Hg Hr].
  destruct Hx as [<-|Hx].
  - unfold keys_gt in Hg. rewrite forallb_forall in Hg. apply Hg. apply in_or_app. right. exact Hy.
  - exact (IH Hr x y Hx Hy).
Qed.

Lemma fold_ins_sorted {A} (l : list (bytes * A)) :
  forall acc, ssorted (acc ++ l) = true ->
  fold_left (fun acc kv => ins_sorted (fst kv) (snd kv) acc) l acc = acc ++ l.
Proof.
  induction l as [|[k v] r IH]; intros acc Hs; [now rewrite app_nil_r|].
  cbn [fold_left fst snd].
  rewrite ins_sorted_last.
  - assert (E : acc ++ (k, v) :: r = (acc ++ [(k, v)]) ++ r) by (rewrite <- app_assoc; reflexivity).
    rewrite E. apply IH. rewrite <- E. exact Hs.
  - intros kv Hin. apply (ssorted_app_lt acc ((k, v) :: r) Hs kv (k, v) Hin). left. reflexivity.
Qed.

(* sorting a strictly sorted list is the identity *)
Lemma sort_kv_sorted {A} (l : list (bytes * A)) : ssorted l = true -> sort_kv l = l.
Proof. intros Hs. unfold sort_kv. apply (fold_ins_sorted l [] Hs). Qed.

(* ------------------------------------------------------------------------------------------ *)
(* The parser on the printer's output                                                          *)
(* ------------------------------------------------------------------------------------------ *)

Lemma pval_obj_empty f r : pval (S f) (123 :: 125 :: r) = Some (JObj [], r).
Proof. reflexivity. Qed.
Lemma pval_obj_str f r : pval (S f) (123 :: 34 :: r) = pmembers f (34 :: r) [].
Proof. reflexivity. Qed.
Lemma pval_str f r : pval (S f) (34 :: r) =
  match dec_string (34 :: r) with Some (str, t) => Some (JStr str, t) | None => None end.
Proof. reflexivity. Qed.
Lemma pval_true f r : pval (S f) (116 :: 114 :: 117 :: 101 :: r) = Some (JBool true, r).
Proof. reflexivity. Qed.
Lemma pval_false f r : pval (S f) (102 :: 97 :: 108 :: 115 :: 101 :: r) = Some (JBool false, r).
Proof. reflexivity. Qed.
Lemma pmembers_unf f r acc : pmembers (S f) (34 :: r) acc =
    match dec_string (34 :: r) with
    | Some (k, r) =>
      match skip_ws r with
      | 58 :: r2 =>
        match pval f r2 with
        | Some (v, r3) =>
          match skip_ws r3 with
          | 44 :: r4 => pmembers f r4 ((k, v) :: acc)
          | 125 :: r4 => Some (JObj (rev ((k, v) :: acc)), r4)
          | _ => None
          end
        | None => None
        end
      | _ => None
      end
    | None => None
    end.
Proof. reflexivity. Qed.
Lemma skip_ws_58 r : skip_ws (58 :: r) = 58 :: r.
Proof. reflexivity. Qed.
Lemma skip_ws_44 r : skip_ws (44 :: r) = 44 :: r.
Proof. reflexivity. Qed.
Lemma skip_ws_125 r : skip_ws (125 :: r) = 125 :: r.
Proof. reflexivity. Qed.

Lemma enc_string_cons s X : enc_string s ++ X = 34 :: (enc_body (length s) s ++ [34]) ++ X.
Proof. reflexivity. Qed.

(* [bs] is a printed value: with fuel >= n the parser reads exactly [bs] and returns [v] *)
Definition parses (bs : bytes) (v : jv) (n : nat) : Prop :=
  forall f rest, (n <= f)%nat -> pval f (bs ++ rest) = Some (v, rest).

Lemma parses_mono bs v n n' : (n <= n')%nat -> parses bs v n -> parses bs v n'.
Proof. intros Hn Hp f rest Hf. apply Hp. lia. Qed.

Lemma parses_str s : okstr s -> parses (jstr s) (JStr s) 1.
Proof.
  intros [Hv Hok] f rest Hf. destruct f as [|f]; [lia|].
  unfold jstr. rewrite enc_string_cons, pval_str, <- enc_string_cons.
  rewrite (enc_dec_string s rest Hv Hok). reflexivity.
Qed.

Definition s_false := of_string "false"%string.

Lemma parses_true : parses s_true (JBool true) 1.
Proof. intros f rest Hf. destruct f as [|f]; [lia|]. apply pval_true. Qed.
Lemma parses_false : parses s_false (JBool false) 1.
Proof. intros f rest Hf. destruct f as [|f]; [lia|]. apply pval_false. Qed.

(* a printed field: key, printed value, parsed value *)
Definition fld : Type := bytes * bytes * jv.
Definition fk (t : fld) : bytes := fst (fst t).
Definition fb (t : fld) : bytes := snd (fst t).
Definition fv (t : fld) : jv := snd t.
Definition pr (t : fld) : bytes := jstr (fk t) ++ [58] ++ fb t.
Definition printed (l : list fld) : list (bytes * bytes) := map (fun t => (fk t, fb t)) l.
Definition parsed (l : list fld) : list (bytes * jv) := map (fun t => (fk t, fv t)) l.
Definition fld_ok (n : nat) (t : fld) : Prop := okstr (fk t) /\ parses (fb t) (fv t) n.

Lemma jobj_printed l : jobj (printed l) = [123] ++ join_with [44] (map pr l) ++ [125].
Proof. unfold jobj, printed. rewrite map_map. reflexivity. Qed.

Lemma pmembers_step f k bs v n X acc :
  okstr k -> parses bs v n -> (n <= f)%nat ->
  pmembers (S f) (jstr k ++ [58] ++ bs ++ X) acc =
  match skip_ws X with
  | 44 :: r4 => pmembers f r4 ((k, v) :: acc)
  | 125 :: r4 => Some (JObj (rev ((k, v) :: acc)), r4)
  | _ => None
  end.
Proof.
  intros [Hv Hok] Hp Hf. unfold jstr.
  rewrite enc_string_cons, pmembers_unf, <- enc_string_cons.
  rewrite (enc_dec_string k _ Hv Hok).
  cbn [app]. rewrite skip_ws_58. cbv beta iota.
  rewrite (Hp f X Hf). reflexivity.
Qed.

Lemma pmembers_ok n : forall l : list fld,
  Forall (fld_ok n) l -> l <> [] ->
  forall f acc rest, (length l + n <= f)%nat ->
  pmembers f (join_with [44] (map pr l) ++ 125 :: rest) acc = Some (JObj (rev acc ++ parsed l), rest).
Proof.
  induction l as [|t l IH]; intros Hall Hne f acc rest Hf; [congruence|].
  inversion Hall as [|t0 l0 [Hk Hp] Hall']; subst t0 l0.
  cbn [length] in Hf. destruct f as [|f]; [lia|].
  destruct l as [|t' l'].
  - cbn [map join_with]. unfold pr at 1. rewrite <- !app_assoc.
    rewrite (pmembers_step f (fk t) (fb t) (fv t) n _ acc Hk Hp) by lia.
    rewrite skip_ws_125. cbv beta iota. cbn [rev parsed map]. reflexivity.
  - change (join_with [44] (map pr (t :: t' :: l')))
      with (pr t ++ [44] ++ join_with [44] (map pr (t' :: l'))).
    unfold pr at 1. rewrite <- !app_assoc.
    rewrite (pmembers_step f (fk t) (fb t) (fv t) n _ acc Hk Hp) by lia.
    cbn [app]. rewrite skip_ws_44. cbv beta iota.
    rewrite (IH Hall') by (cbn [length] in *; try congruence; lia).
    cbn [rev]. rewrite <- app_assoc. reflexivity.
Qed.

Lemma join_starts_quote (l : list fld) Z :
  l <> [] -> exists Y, join_with [44] (map pr l) ++ Z = 34 :: Y.
Proof.
  intros Hne. destruct l as [|t [|t' l]]; [congruence| |].
  - cbn [map join_with]. unfold pr, jstr. rewrite <- app_assoc, enc_string_cons. eexists. reflexivity.
  - change (join_with [44] (map pr (t :: t' :: l)))
      with (pr t ++ [44] ++ join_with [44] (map pr (t' :: l))).
    unfold pr at 1. unfold jstr. rewrite <- !app_assoc, enc_string_cons. eexists. reflexivity.
Qed.

(* an object printed by jobj is parsed back to its fields *)
Lemma parses_jobj n (l : list fld) :
  Forall (fld_ok n) l -> parses (jobj (printed l)) (JObj (parsed l)) (length l + n + 1).
Proof.
  intros Hall f rest Hf. destruct f as [|f]; [lia|].
  rewrite jobj_printed. destruct l as [|t l].
  - cbn [map join_with app]. apply pval_obj_empty.
  - rewrite <- !app_assoc. cbn [app].
    destruct (join_starts_quote (t :: l) (125 :: rest)) as [Y HY]; [congruence|].
    rewrite HY, pval_obj_str, <- HY.
    rewrite (pmembers_ok n (t :: l) Hall) by (try congruence; lia).
    reflexivity.
Qed.

(* length of a printed object: at least one byte per field, plus the braces *)
Lemma join_len (l : list fld) : (length l <= length (join_with [44%N] (map pr l)))%nat.
Proof.
  induction l as [|t l IH]; [cbn; lia|].
  assert (Ht : (1 <= length (pr t))%nat).
  { unfold pr, jstr, enc_string. cbn [app length]. lia. }
  destruct l as [|t' l'].
  - cbn [map join_with length]. lia.
  - change (join_with [44] (map pr (t :: t' :: l')))
      with (pr t ++ [44] ++ join_with [44] (map pr (t' :: l'))).
    rewrite !app_length. cbn [length] in *. lia.
Qed.

Lemma jobj_len (l : list fld) : (length l + 2 <= length (jobj (printed l)))%nat.
Proof.
  rewrite jobj_printed, !app_length. cbn [length]. pose proof (join_len l). lia.
Qed.

(* ------------------------------------------------------------------------------------------ *)
(* Artifacts: current schema                                                                   *)
(* ------------------------------------------------------------------------------------------ *)

Definition art_fields (a : artifact) : list fld :=
  (match a_cs a with [] => [] | cs => [(s_checksum, jstr cs, JStr cs)] end) ++
  (match a_path a with [] => [] | p => [(s_path, jstr p, JStr p)] end) ++
  (if a_isdir a then [(s_isdir, s_true, JBool true)] else []) ++
  (if a_norec a then [(s_norec, s_true, JBool true)] else []) ++
  (if a_skip a then [(s_skip, s_true, JBool true)] else []).

Lemma enc_artifact_fields a : enc_artifact a = jobj (printed (art_fields a)).
Proof.
  unfold enc_artifact, art_fields. f_equal.
  destruct (a_cs a), (a_path a), (a_isdir a), (a_norec a), (a_skip a); reflexivity.
Qed.

Lemma ok_lit s : okb s = true -> okstr s.
Proof. exact (okb_ok s). Qed.

Lemma ok_s_checksum : okstr s_checksum. Proof. apply ok_lit. vm_compute. reflexivity. Qed.
Lemma ok_s_path : okstr s_path. Proof. apply ok_lit. vm_compute. reflexivity. Qed.
Lemma ok_s_isdir : okstr s_isdir. Proof. apply ok_lit. vm_compute. reflexivity. Qed.
Lemma ok_s_norec : okstr s_norec. Proof. apply ok_lit. vm_compute. reflexivity. Qed.
Lemma ok_s_skip : okstr s_skip. Proof. apply ok_lit. vm_compute. reflexivity. Qed.
Lemma ok_s_contents : okstr s_contents. Proof. apply ok_lit. vm_compute. reflexivity. Qed.

Lemma Forall_app_intro {A} (P : A -> Prop) l1 l2 : Forall P l1 -> Forall P l2 -> Forall P (l1 ++ l2).
Proof. intros H1 H2. apply Forall_app. split; assumption. Qed.

Lemma art_fields_ok a : okstr (a_cs a) -> okstr (a_path a) -> Forall (fld_ok 1) (art_fields a).
Proof.
  intros Hcs Hp. unfold art_fields.
  repeat apply Forall_app_intro.
  - destruct (a_cs a) eqn:E; [constructor|]. constructor; [|constructor].
    split; [exact ok_s_checksum | apply parses_str; exact Hcs].
  - destruct (a_path a) eqn:E; [constructor|]. constructor; [|constructor].
    split; [exact ok_s_path | apply parses_str; exact Hp].
  - destruct (a_isdir a); constructor; [|constructor]. split; [exact ok_s_isdir | exact parses_true].
  - destruct (a_norec a); constructor; [|constructor]. split; [exact ok_s_norec | exact parses_true].
  - destruct (a_skip a); constructor; [|constructor]. split; [exact ok_s_skip | exact parses_true].
Qed.

Lemma art_fields_len a : (length (art_fields a) <= 5)%nat.
Proof.
  unfold art_fields.
  destruct (a_cs a), (a_path a), (a_isdir a), (a_norec a), (a_skip a); cbn [app length]; lia.
Qed.

Lemma parses_artifact a :
  okstr (a_cs a) -> okstr (a_path a) -> parses (enc_artifact a) (JObj (parsed (art_fields a))) 7.
Proof.
  intros Hcs Hp. rewrite enc_artifact_fields.
  apply (parses_mono _ _ (length (art_fields a) + 1 + 1)); [pose proof (art_fields_len a); lia|].
  apply parses_jobj. apply art_fields_ok; assumption.
Qed.

(* the strict current-schema decoder reads back what the encoder wrote (any artifact) *)
Lemma dec_child_new a : dec_child (JObj (parsed (art_fields a))) = Some a.
Proof.
  destruct a as [cs p d nr sk].
  destruct cs as [|c cs], p as [|q p], d, nr, sk; reflexivity.
Qed.

(* ------------------------------------------------------------------------------------------ *)
(* Manifests: current schema                                                                   *)
(* ------------------------------------------------------------------------------------------ *)

Lemma wf_entry_spec kv : wf_entry kv = true ->
  a_path (snd kv) = fst kv /\ valid_entry_name (fst kv) = true /\ okstr (fst kv) /\ okstr (a_cs (snd kv)).
Proof.
  unfold wf_entry. intros Hw.
  apply andb_true_iff in Hw as [Hw H4]. apply andb_true_iff in Hw as [Hw H3].
  apply andb_true_iff in Hw as [H1 H2]. apply beqb_eq in H1.
  split; [exact H1|]. split; [exact H2|]. split; [exact (okb_ok _ H3) | exact (okb_ok _ H4)].
Qed.

(* children printed with a given artifact printer [e] whose output parses to [j] *)
Definition child_flds (e : artifact -> bytes) (j : artifact -> jv) (l : list (bytes * artifact)) : list fld :=
  map (fun kv => (fst kv, e (snd kv), j (snd kv))) l.

Lemma child_flds_printed e j l :
  printed (child_flds e j l) = map (fun kv => (fst kv, e (snd kv))) l.
Proof. unfold printed, child_flds. rewrite map_map. reflexivity. Qed.

Lemma child_flds_ok e j n l :
  (forall kv, In kv l -> wf_entry kv = true -> parses (e (snd kv)) (j (snd kv)) n) ->
  wf_entries l = true -> Forall (fld_ok n) (child_flds e j l).
Proof.
  intros He Hw. unfold wf_entries in Hw. rewrite forallb_forall in Hw.
  unfold child_flds. apply Forall_forall. intros t Ht. apply in_map_iff in Ht as (kv & <- & Hin).
  destruct (wf_entry_spec kv (Hw kv Hin)) as (_ & _ & Hk & _).
  split; [exact Hk | exact (He kv Hin (Hw kv Hin))].
Qed.

Lemma dec_children_ok e j l :
  (forall kv, In kv l -> dec_child (j (snd kv)) = Some (snd kv)) ->
  dec_children (parsed (child_flds e j l)) = Some l.
Proof.
  induction l as [|[k a] r IH]; intros Hd; [reflexivity|].
  cbn [child_flds parsed map fk fv fst snd dec_children].
  pose proof (Hd (k, a) (or_introl eq_refl)) as H0. cbn [snd] in H0. rewrite H0.
  unfold parsed, child_flds in IH. rewrite IH; [reflexivity|].
  intros kv Hin. apply Hd. right. exact Hin.
Qed.

(* the top-level decoder on a two-field object whose keys match "path" and "contents" under
   Go's case-insensitive field matching *)
Lemma dec_manifest_v_two k1 k2 p ckv :
  fold_eq k1 s_path = true -> fold_eq k2 s_path = false -> fold_eq k2 s_contents = true ->
  dec_manifest_v (JObj [(k1, JStr p); (k2, JObj ckv)]) =
  match dec_children ckv with
  | Some l =>
    if forallb (fun kv => beqb (a_path (snd kv)) (fst kv) && valid_entry_name (fst kv)) (sort_kv l)
    then Some (mkMan p (sort_kv l)) else None
  | None => None
  end.
Proof.
  intros E1 E2 E3. cbv [dec_manifest_v]. cbn [fold_left fst snd].
  rewrite E1, E2, E3. cbn [m_contents m_path app].
  destruct (dec_children ckv); reflexivity.
Qed.

Lemma dec_manifest_v_new p ckv :
  dec_manifest_v (JObj [(s_path, JStr p); (s_contents, JObj ckv)]) =
  match dec_children ckv with
  | Some l =>
    if forallb (fun kv => beqb (a_path (snd kv)) (fst kv) && valid_entry_name (fst kv)) (sort_kv l)
    then Some (mkMan p (sort_kv l)) else None
  | None => None
  end.
Proof. apply dec_manifest_v_two; reflexivity. Qed.

Lemma wf_entries_check l : wf_entries l = true ->
  forallb (fun kv => beqb (a_path (snd kv)) (fst kv) && valid_entry_name (fst kv)) l = true.
Proof.
  unfold wf_entries. rewrite !forallb_forall. intros Hw kv Hin.
  destruct (wf_entry_spec kv (Hw kv Hin)) as (H1 & H2 & _).
  rewrite H2. apply beqb_eq in H1. rewrite H1. reflexivity.
Qed.

(* the top-level object, for any key pair (k1, k2) and artifact printer *)
Definition man_flds (k1 k2 : bytes) e j (m : manifest) : list fld :=
  [(k1, jstr (m_path m), JStr (m_path m));
   (k2, jobj (printed (child_flds e j (sort_kv (m_contents m)))),
        JObj (parsed (child_flds e j (sort_kv (m_contents m)))))].

Lemma man_parses k1 k2 e j n m :
  okstr k1 -> okstr k2 -> okstr (m_path m) -> wf_entries (sort_kv (m_contents m)) = true ->
  (forall kv, In kv (sort_kv (m_contents m)) -> wf_entry kv = true -> parses (e (snd kv)) (j (snd kv)) n) ->
  parses (jobj (printed (man_flds k1 k2 e j m))) (JObj (parsed (man_flds k1 k2 e j m)))
         (length (sort_kv (m_contents m)) + n + 4).
Proof.
  intros Hk1 Hk2 Hp Hw He.
  apply (parses_mono _ _ (length (man_flds k1 k2 e j m) + (length (sort_kv (m_contents m)) + n + 1) + 1));
    [cbn [man_flds length]; lia|].
  apply parses_jobj. unfold man_flds. constructor; [|constructor; [|constructor]].
  - split; [exact Hk1|]. cbn [fb fv fst snd]. apply (parses_mono _ _ 1); [lia|]. apply parses_str. exact Hp.
  - split; [exact Hk2|]. cbn [fb fv fst snd].
    rewrite <- (map_length (fun kv => (fst kv, e (snd kv), j (snd kv))) (sort_kv (m_contents m))).
    apply parses_jobj. apply child_flds_ok; assumption.
Qed.

(* the fuel of parse_json is enough *)
Lemma man_len k1 k2 e j m :
  (length (sort_kv (m_contents m)) + 6 <= length (jobj (printed (man_flds k1 k2 e j m))))%nat.
Proof.
  rewrite jobj_printed. cbn [man_flds map join_with]. unfold pr. cbn [fk fb fst snd].
  rewrite !app_length.
  pose proof (jobj_len (child_flds e j (sort_kv (m_contents m)))) as Hl.
  unfold child_flds in Hl at 1. rewrite map_length in Hl.
  cbn [length]. lia.
Qed.

Lemma parse_json_man k1 k2 e j n m :
  (n <= 12)%nat ->
  okstr k1 -> okstr k2 -> okstr (m_path m) -> wf_entries (sort_kv (m_contents m)) = true ->
  (forall kv, In kv (sort_kv (m_contents m)) -> wf_entry kv = true -> parses (e (snd kv)) (j (snd kv)) n) ->
  parse_json (jobj (printed (man_flds k1 k2 e j m)) ++ [10]) = Some (JObj (parsed (man_flds k1 k2 e j m))).
Proof.
  intros Hn Hk1 Hk2 Hp Hw He. unfold parse_json.
  rewrite (man_parses k1 k2 e j n m Hk1 Hk2 Hp Hw He); [reflexivity|].
  rewrite app_length. pose proof (man_len k1 k2 e j m). cbn [length]. lia.
Qed.

Lemma enc_manifest_flds m :
  enc_manifest m =
  jobj (printed (man_flds s_path s_contents (fun a => enc_artifact a) (fun a => JObj (parsed (art_fields a))) m)) ++ [10].
Proof.
  unfold enc_manifest. cbn [man_flds printed map fk fb fst snd].
  rewrite child_flds_printed. reflexivity.
Qed.

(* general form: contents in any order (the listing order of commit_node); the decoder returns
   the canonical (sorted) contents *)
Theorem dec_enc_manifest_any m :
  okstr (m_path m) -> wf_entries (sort_kv (m_contents m)) = true ->
  sort_kv (sort_kv (m_contents m)) = sort_kv (m_contents m) ->
  dec_manifest (enc_manifest m) = Some (mkMan (m_path m) (sort_kv (m_contents m))).
Proof.
  intros Hp Hw Hidem. unfold dec_manifest. rewrite enc_manifest_flds.
  rewrite (parse_json_man _ _ _ _ 7 m); try assumption; try lia.
  - cbn [man_flds parsed map fk fv fst snd].
    rewrite dec_manifest_v_new.
    change (map (fun t : fld => (fk t, fv t)) ?l) with (parsed l).
    rewrite dec_children_ok by (intros kv _; apply dec_child_new).
    rewrite Hidem, (wf_entries_check _ Hw). reflexivity.
  - exact ok_s_path.
  - exact ok_s_contents.
  - intros kv Hin Hkv. destruct (wf_entry_spec kv Hkv) as (H1 & _ & H3 & H4).
    apply parses_artifact; [exact H4 | rewrite H1; exact H3].
Qed.

Theorem dec_enc_manifest m : wf_manifest m = true -> dec_manifest (enc_manifest m) = Some m.
Proof.
  unfold wf_manifest. intros Hw.
  apply andb_true_iff in Hw as [Hw H3]. apply andb_true_iff in Hw as [H1 H2].
  pose proof (sort_kv_sorted _ H2) as Hs.
  rewrite dec_enc_manifest_any.
  - rewrite Hs. destruct m; reflexivity.
  - apply okb_ok. exact H1.
  - rewrite Hs. exact H3.
  - rewrite Hs. exact Hs.
Qed.
Print Assumptions dec_enc_manifest.

Theorem enc_manifest_inj m1 m2 :
  wf_manifest m1 = true -> wf_manifest m2 = true -> enc_manifest m1 = enc_manifest m2 -> m1 = m2.
Proof.
  intros H1 H2 E. pose proof (dec_enc_manifest m1 H1) as D1. pose proof (dec_enc_manifest m2 H2) as D2.
  rewrite E in D1. rewrite D1 in D2. injection D2 as D2. exact D2.
Qed.
Print Assumptions enc_manifest_inj.

(* ------------------------------------------------------------------------------------------ *)
(* C20: the old schema (no json tags: Go field names, every field always present)              *)
(* ------------------------------------------------------------------------------------------ *)

Definition o_checksum := of_string "Checksum"%string.
Definition o_path := of_string "Path"%string.
Definition o_isdir := of_string "IsDir"%string.
Definition o_norec := of_string "DisableRecursion"%string.
Definition o_skip := of_string "SkipCache"%string.
Definition o_contents := of_string "Contents"%string.

Definition jbool (b : bool) : bytes := if b then s_true else s_false.

(* {"Checksum":..,"Path":..,"IsDir":..,"DisableRecursion":..,"SkipCache":..} *)
Definition enc_artifact_old (a : artifact) : bytes :=
  jobj [(o_checksum, jstr (a_cs a)); (o_path, jstr (a_path a)); (o_isdir, jbool (a_isdir a));
        (o_norec, jbool (a_norec a)); (o_skip, jbool (a_skip a))].

(* {"Path":..,"Contents":{..sorted keys..}} and the newline of Encoder.Encode *)
Definition enc_manifest_old (m : manifest) : bytes :=
  jobj [(o_path, jstr (m_path m));
        (o_contents, jobj (map (fun kv => (fst kv, enc_artifact_old (snd kv))) (sort_kv (m_contents m))))]
  ++ [10].

Lemma old_names_eq : old_names = [o_checksum; o_path; o_isdir; o_norec; o_skip].
Proof. reflexivity. Qed.

Definition old_fields (a : artifact) : list fld :=
  [(o_checksum, jstr (a_cs a), JStr (a_cs a)); (o_path, jstr (a_path a), JStr (a_path a));
   (o_isdir, jbool (a_isdir a), JBool (a_isdir a)); (o_norec, jbool (a_norec a), JBool (a_norec a));
   (o_skip, jbool (a_skip a), JBool (a_skip a))].

Lemma enc_artifact_old_fields a : enc_artifact_old a = jobj (printed (old_fields a)).
Proof. reflexivity. Qed.

Lemma parses_bool b : parses (jbool b) (JBool b) 1.
Proof. destruct b; [exact parses_true | exact parses_false]. Qed.

Lemma ok_o_checksum : okstr o_checksum. Proof. apply ok_lit. vm_compute. reflexivity. Qed.
Lemma ok_o_path : okstr o_path. Proof. apply ok_lit. vm_compute. reflexivity. Qed.
Lemma ok_o_isdir : okstr o_isdir. Proof. apply ok_lit. vm_compute. reflexivity. Qed.
Lemma ok_o_norec : okstr o_norec. Proof. apply ok_lit. vm_compute. reflexivity. Qed.
Lemma ok_o_skip : okstr o_skip. Proof. apply ok_lit. vm_compute. reflexivity. Qed.
Lemma ok_o_contents : okstr o_contents. Proof. apply ok_lit. vm_compute. reflexivity. Qed.

Lemma parses_artifact_old a :
  okstr (a_cs a) -> okstr (a_path a) -> parses (enc_artifact_old a) (JObj (parsed (old_fields a))) 7.
Proof.
  intros Hcs Hp. rewrite enc_artifact_old_fields.
  apply (parses_jobj 1 (old_fields a)). unfold old_fields.
  constructor; [split; [exact ok_o_checksum | apply parses_str; exact Hcs]|].
  constructor; [split; [exact ok_o_path | apply parses_str; exact Hp]|].
  constructor; [split; [exact ok_o_isdir | apply parses_bool]|].
  constructor; [split; [exact ok_o_norec | apply parses_bool]|].
  constructor; [split; [exact ok_o_skip | apply parses_bool]|].
  constructor.
Qed.

(* the key facts of Go's field matching: exact or ASCII case-insensitive *)
Lemma fold_old_checksum : fold_eq o_checksum s_checksum = true. Proof. reflexivity. Qed.
Lemma fold_old_path : fold_eq o_path s_path = true. Proof. reflexivity. Qed.
Lemma fold_old_isdir_none :
  forallb (fun n => negb (fold_eq o_isdir n)) new_names = true.
Proof. reflexivity. Qed.

(* the strict current-schema pass rejects an old object (unknown field IsDir) ... *)
Lemma dec_fields_new_rejects_old a a0 :
  dec_fields new_names true (parsed (old_fields a)) a0 = None.
Proof. reflexivity. Qed.

(* ... and the lenient old-schema pass reads it *)
Lemma dec_fields_old_reads_old a a0 :
  dec_fields old_names false (parsed (old_fields a)) a0 = Some a.
Proof. destruct a; reflexivity. Qed.

Lemma dec_child_old a : dec_child (JObj (parsed (old_fields a))) = Some a.
Proof.
  unfold dec_child. rewrite dec_fields_new_rejects_old. apply dec_fields_old_reads_old.
Qed.

Lemma enc_manifest_old_flds m :
  enc_manifest_old m =
  jobj (printed (man_flds o_path o_contents enc_artifact_old (fun a => JObj (parsed (old_fields a))) m)) ++ [10].
Proof.
  unfold enc_manifest_old. cbn [man_flds printed map fk fb fst snd].
  rewrite child_flds_printed. reflexivity.
Qed.

Theorem dec_enc_manifest_old_any m :
  okstr (m_path m) -> wf_entries (sort_kv (m_contents m)) = true ->
  sort_kv (sort_kv (m_contents m)) = sort_kv (m_contents m) ->
  dec_manifest (enc_manifest_old m) = Some (mkMan (m_path m) (sort_kv (m_contents m))).
Proof.
  intros Hp Hw Hidem. unfold dec_manifest. rewrite enc_manifest_old_flds.
  rewrite (parse_json_man _ _ _ _ 7 m); try assumption; try lia.
  - cbn [man_flds parsed map fk fv fst snd].
    rewrite dec_manifest_v_two by reflexivity.
    change (map (fun t : fld => (fk t, fv t)) ?l) with (parsed l).
    rewrite dec_children_ok by (intros kv _; apply dec_child_old).
    rewrite Hidem, (wf_entries_check _ Hw). reflexivity.
  - exact ok_o_path.
  - exact ok_o_contents.
  - intros kv Hin Hkv. destruct (wf_entry_spec kv Hkv) as (H1 & _ & H3 & H4).
    apply parses_artifact_old; [exact H4 | rewrite H1; exact H3].
Qed.

Theorem dec_enc_manifest_old m : wf_manifest m = true -> dec_manifest (enc_manifest_old m) = Some m.
Proof.
  unfold wf_manifest. intros Hw.
  apply andb_true_iff in Hw as [Hw H3]. apply andb_true_iff in Hw as [H1 H2].
  pose proof (sort_kv_sorted _ H2) as Hs.
  rewrite dec_enc_manifest_old_any.
  - rewrite Hs. destruct m; reflexivity.
  - apply okb_ok. exact H1.
  - rewrite Hs. exact H3.
  - rewrite Hs. exact Hs.
Qed.

(* C20 *)
Theorem old_schema_equiv m :
  wf_manifest m = true -> dec_manifest (enc_manifest_old m) = dec_manifest (enc_manifest m).
Proof. intros Hw. rewrite (dec_enc_manifest_old m Hw), (dec_enc_manifest m Hw). reflexivity. Qed.
Print Assumptions old_schema_equiv.

(* ------------------------------------------------------------------------------------------ *)
(* sort_kv: canonical form; independence of the listing order                                  *)
(* ------------------------------------------------------------------------------------------ *)

Lemma in_ins_sorted {A} k (v : A) l x : In x (ins_sorted k v l) -> x = (k, v) \/ In x l.
Proof.
  induction l as [|[k' v'] r IH]; cbn [ins_sorted]; intros Hin.
  - destruct Hin as [<-|[]]. left. reflexivity.
  - destruct (beqb k k').
    + destruct Hin as [<-|Hin]; [left; reflexivity | right; right; exact Hin].
    + destruct (bltb k k').
      * destruct Hin as [<-|Hin]; [left; reflexivity | right; exact Hin].
      * destruct Hin as [<-|Hin]; [right; left; reflexivity|].
        destruct (IH Hin) as [->|Hr]; [left; reflexivity | right; right; exact Hr].
Qed.

Lemma keys_gt_trans {A} k k' (l : list (bytes * A)) :
  bltb k k' = true -> keys_gt k' l = true -> keys_gt k l = true.
Proof.
  unfold keys_gt. rewrite !forallb_forall. intros Hk Hl x Hx.
  exact (bltb_trans _ _ _ Hk (Hl x Hx)).
Qed.

Lemma ins_sorted_ssorted {A} k (v : A) l : ssorted l = true -> ssorted (ins_sorted k v l) = true.
Proof.
  induction l as [|[k' v'] r IH]; intros Hs; [reflexivity|].
  cbn [ssorted fst] in Hs. apply andb_true_iff in Hs as [Hg Hr].
  cbn [ins_sorted]. destruct (beqb k k') eqn:Eeq.
  - apply beqb_eq in Eeq. subst k'. cbn [ssorted fst]. rewrite Hg, Hr. reflexivity.
  - destruct (bltb k k') eqn:Elt.
    + cbn [ssorted fst keys_gt forallb]. fold (keys_gt k r). fold (keys_gt k' r).
      rewrite Elt, (keys_gt_trans k k' r Elt Hg), Hg, Hr. reflexivity.
    + pose proof (bltb_total k k' Eeq Elt) as Hgt.
      cbn [ssorted fst]. rewrite (IH Hr), andb_true_r.
      unfold keys_gt. rewrite forallb_forall. intros x Hx.
      destruct (in_ins_sorted k v r x Hx) as [->|Hin]; [exact Hgt|].
      unfold keys_gt in Hg. rewrite forallb_forall in Hg. exact (Hg x Hin).
Qed.

Lemma fold_ins_ssorted {A} (l : list (bytes * A)) : forall acc,
  ssorted acc = true ->
  ssorted (fold_left (fun acc kv => ins_sorted (fst kv) (snd kv) acc) l acc) = true.
Proof.
  induction l as [|kv r IH]; intros acc Ha; [exact Ha|].
  cbn [fold_left]. apply IH. apply ins_sorted_ssorted. exact Ha.
Qed.

(* sort_kv produces strictly increasing keys *)
Lemma sort_kv_ssorted {A} (l : list (bytes * A)) : ssorted (sort_kv l) = true.
Proof. unfold sort_kv. apply fold_ins_ssorted. reflexivity. Qed.

Lemma sort_kv_idem {A} (l : list (bytes * A)) : sort_kv (sort_kv l) = sort_kv l.
Proof. apply sort_kv_sorted. apply sort_kv_ssorted. Qed.

Lemma fold_ins_in {A} (l : list (bytes * A)) : forall acc x,
  In x (fold_left (fun acc kv => ins_sorted (fst kv) (snd kv) acc) l acc) -> In x acc \/ In x l.
Proof.
  induction l as [|[k v] r IH]; intros acc x Hin; [left; exact Hin|].
  cbn [fold_left fst snd] in Hin. destruct (IH _ _ Hin) as [Hi|Hi].
  - destruct (in_ins_sorted k v acc x Hi) as [->|Ha]; [right; left; reflexivity | left; exact Ha].
  - right. right. exact Hi.
Qed.

(* every entry of the sorted list is an entry of the input *)
Lemma sort_kv_in {A} (l : list (bytes * A)) x : In x (sort_kv l) -> In x l.
Proof. intros Hin. destruct (fold_ins_in l [] x Hin) as [[]|Hl]. exact Hl. Qed.

Lemma wf_entries_sort l : wf_entries l = true -> wf_entries (sort_kv l) = true.
Proof.
  unfold wf_entries. rewrite !forallb_forall. intros Hw x Hx. apply Hw. apply sort_kv_in. exact Hx.
Qed.

(* The manifest commit_node writes: entries in listing order, any order.  The decoder returns the
   canonical contents, which form a well-formed manifest. *)
Theorem dec_enc_manifest_listing p l :
  okb p = true -> wf_entries l = true ->
  dec_manifest (enc_manifest (mkMan p l)) = Some (mkMan p (sort_kv l)) /\
  wf_manifest (mkMan p (sort_kv l)) = true.
Proof.
  intros Hp Hw. split.
  - apply (dec_enc_manifest_any (mkMan p l)); cbn [m_path m_contents].
    + apply okb_ok. exact Hp.
    + apply wf_entries_sort. exact Hw.
    + apply sort_kv_idem.
  - unfold wf_manifest. cbn [m_path m_contents].
    rewrite Hp, sort_kv_ssorted, (wf_entries_sort l Hw). reflexivity.
Qed.
Print Assumptions dec_enc_manifest_listing.

(* two strictly sorted lists with the same entries are equal *)
Lemma ssorted_perm_eq {A} (l1 : list (bytes * A)) : forall l2,
  ssorted l1 = true -> ssorted l2 = true -> Permutation l1 l2 -> l1 = l2.
Proof.
  induction l1 as [|x r1 IH]; intros l2 H1 H2 HP.
  - apply Permutation_nil in HP. subst l2. reflexivity.
  - destruct l2 as [|y r2]; [apply Permutation_sym, Permutation_nil in HP; discriminate|].
    cbn [ssorted] in H1, H2.
    apply andb_true_iff in H1 as [G1 S1]. apply andb_true_iff in H2 as [G2 S2].
    unfold keys_gt in G1, G2. rewrite forallb_forall in G1, G2.
    assert (Exy : x = y).
    { assert (Hx : In x (y :: r2)) by (apply (Permutation_in x HP); left; reflexivity).
      destruct Hx as [Hx|Hx]; [symmetry; exact Hx|].
      assert (Hy : In y (x :: r1)) by (apply (Permutation_in y (Permutation_sym HP)); left; reflexivity).
      destruct Hy as [Hy|Hy]; [exact Hy|].
      pose proof (G2 x Hx) as L1. pose proof (G1 y Hy) as L2.
      rewrite (bltb_asym _ _ L1) in L2. discriminate. }
    subst y. f_equal. apply IH; try assumption.
    exact (Permutation_cons_inv HP).
Qed.

Lemma ins_sorted_perm {A} k (v : A) l :
  (forall x, In x l -> beqb k (fst x) = false) -> Permutation (ins_sorted k v l) ((k, v) :: l).
Proof.
  induction l as [|[k' v'] r IH]; intros Hl; [apply Permutation_refl|].
  cbn [ins_sorted].
  pose proof (Hl (k', v') (or_introl eq_refl)) as Hk. cbn [fst] in Hk. rewrite Hk.
  destruct (bltb k k'); [apply Permutation_refl|].
  apply (Permutation_trans (l' := (k', v') :: (k, v) :: r)).
  - apply perm_skip. apply IH. intros x Hx. apply Hl. right. exact Hx.
  - apply perm_swap.
Qed.

Lemma fold_ins_perm {A} (l : list (bytes * A)) : forall acc,
  NoDup (map fst (acc ++ l)) ->
  Permutation (fold_left (fun acc kv => ins_sorted (fst kv) (snd kv) acc) l acc) (acc ++ l).
Proof.
  induction l as [|[k v] r IH]; intros acc Hnd; [rewrite app_nil_r; apply Permutation_refl|].
  cbn [fold_left fst snd].
  assert (Hfresh : forall x, In x acc -> beqb k (fst x) = false).
  { intros x Hx. destruct (beqb k (fst x)) eqn:E; [|reflexivity].
    apply beqb_eq in E. rewrite map_app in Hnd. cbn [map fst] in Hnd.
    apply NoDup_remove_2 in Hnd. exfalso. apply Hnd. apply in_or_app. left.
    rewrite E. apply in_map. exact Hx. }
  pose proof (ins_sorted_perm k v acc Hfresh) as Hins.
  assert (Hmid : Permutation (ins_sorted k v acc ++ r) (acc ++ (k, v) :: r)).
  { apply (Permutation_trans (l' := ((k, v) :: acc) ++ r)).
    - apply Permutation_app_tail. exact Hins.
    - cbn [app]. apply Permutation_middle. }
  apply (Permutation_trans (l' := ins_sorted k v acc ++ r)); [|exact Hmid].
  apply IH. apply (Permutation_NoDup (l := map fst (acc ++ (k, v) :: r))); [|exact Hnd].
  apply Permutation_map. apply Permutation_sym. exact Hmid.
Qed.

Lemma sort_kv_perm {A} (l : list (bytes * A)) : NoDup (map fst l) -> Permutation (sort_kv l) l.
Proof. intros Hnd. unfold sort_kv. apply (fold_ins_perm l [] Hnd). Qed.

Lemma sort_kv_perm_eq {A} (l1 l2 : list (bytes * A)) :
  NoDup (map fst l1) -> Permutation l1 l2 -> sort_kv l1 = sort_kv l2.
Proof.
  intros Hnd HP.
  assert (Hnd2 : NoDup (map fst l2)).
  { apply (Permutation_NoDup (l := map fst l1)); [apply Permutation_map; exact HP | exact Hnd]. }
  apply ssorted_perm_eq; try apply sort_kv_ssorted.
  apply (Permutation_trans (l' := l1)); [apply sort_kv_perm; exact Hnd|].
  apply (Permutation_trans (l' := l2)); [exact HP|].
  apply Permutation_sym. apply sort_kv_perm. exact Hnd2.
Qed.

(* the encoded manifest does not depend on the order in which the directory was listed *)
Theorem enc_manifest_perm p l1 l2 :
  NoDup (map fst l1) -> Permutation l1 l2 ->
  enc_manifest (mkMan p l1) = enc_manifest (mkMan p l2).
Proof.
  intros Hnd HP. unfold enc_manifest. cbn [m_path m_contents].
  rewrite (sort_kv_perm_eq l1 l2 Hnd HP). reflexivity.
Qed.
Print Assumptions enc_manifest_perm.

Theorem enc_manifest_old_perm p l1 l2 :
  NoDup (map fst l1) -> Permutation l1 l2 ->
  enc_manifest_old (mkMan p l1) = enc_manifest_old (mkMan p l2).
Proof.
  intros Hnd HP. unfold enc_manifest_old. cbn [m_path m_contents].
  rewrite (sort_kv_perm_eq l1 l2 Hnd HP). reflexivity.
Qed.

(* the usual "adjacent keys increase" reading of sortedness is the same predicate *)
Fixpoint asorted {A} (l : list (bytes * A)) : bool :=
  match l with
  | [] => true
  | kv :: r => match r with [] => true | kv' :: _ => bltb (fst kv) (fst kv') && asorted r end
  end.

Lemma asorted_ssorted {A} (l : list (bytes * A)) : asorted l = ssorted l.
Proof.
  induction l as [|kv r IH]; [reflexivity|].
  destruct r as [|kv' r']; [reflexivity|].
  change (asorted (kv :: kv' :: r')) with (bltb (fst kv) (fst kv') && asorted (kv' :: r')).
  rewrite IH. cbn [ssorted keys_gt forallb]. fold (keys_gt (fst kv) r'). fold (keys_gt (fst kv') r').
  destruct (bltb (fst kv) (fst kv')) eqn:E1; [|reflexivity].
  destruct (keys_gt (fst kv') r') eqn:E2; [|cbn [andb]; now rewrite andb_false_r].
  rewrite (keys_gt_trans _ _ _ E1 E2). reflexivity.
Qed.

(* ------------------------------------------------------------------------------------------ *)
(* Concrete instances, by computation                                                          *)
(* ------------------------------------------------------------------------------------------ *)

(* three entries: a name with a space, a name with a quote (a directory), a non-ASCII name *)
Definition ex_n1 : bytes := [97; 32; 98].        (* a b *)
Definition ex_n2 : bytes := [113; 34; 120].      (* q, quote, x *)
Definition ex_n3 : bytes := [195; 169].          (* e acute *)
Definition ex_man : manifest :=
  mkMan (of_string "data dir"%string)
    [(ex_n1, mkArt (of_string "0a1b2c"%string) ex_n1 false false false);
     (ex_n2, mkArt (of_string "ff00ee"%string) ex_n2 true false false);
     (ex_n3, mkArt (of_string "c3a9d4"%string) ex_n3 false false false)].

Example ex_wf : wf_manifest ex_man = true.
Proof. vm_compute. reflexivity. Qed.

Example ex_enc_text :
  enc_manifest ex_man =
  of_string "{""path"":""data dir"",""contents"":{""a b"":{""checksum"":""0a1b2c"",""path"":""a b""},""q\""x"":{""checksum"":""ff00ee"",""path"":""q\""x"",""is-dir"":true},"""%string
  ++ ex_n3 ++ of_string """:{""checksum"":""c3a9d4"",""path"":"""%string ++ ex_n3 ++ of_string """}}}"%string ++ [10].
Proof. vm_compute. reflexivity. Qed.

Example ex_roundtrip : dec_manifest (enc_manifest ex_man) = Some ex_man.
Proof. vm_compute. reflexivity. Qed.

Example ex_old_text :
  enc_manifest_old (mkMan [100] [(ex_n3, mkArt (of_string "c3a9d4"%string) ex_n3 true false false)]) =
  of_string "{""Path"":""d"",""Contents"":{"""%string ++ ex_n3 ++
  of_string """:{""Checksum"":""c3a9d4"",""Path"":"""%string ++ ex_n3 ++
  of_string """,""IsDir"":true,""DisableRecursion"":false,""SkipCache"":false}}}"%string ++ [10].
Proof. vm_compute. reflexivity. Qed.

Example ex_old_roundtrip : dec_manifest (enc_manifest_old ex_man) = Some ex_man.
Proof. vm_compute. reflexivity. Qed.

(* the same entries in another listing order give the same bytes and decode to the sorted form *)
Definition ex_listing : manifest :=
  mkMan (m_path ex_man) (rev (m_contents ex_man)).
Example ex_listing_enc : enc_manifest ex_listing = enc_manifest ex_man.
Proof. vm_compute. reflexivity. Qed.
Example ex_listing_dec : dec_manifest (enc_manifest ex_listing) = Some ex_man.
Proof. vm_compute. reflexivity. Qed.

(* a flagged child (never produced by commit, accepted by the codec all the same) *)
Example ex_flags :
  let m := mkMan [] [([120], mkArt [] [120] true true true)] in
  wf_manifest m = true /\ dec_manifest (enc_manifest m) = Some m /\ dec_manifest (enc_manifest_old m) = Some m.
Proof. vm_compute. repeat split; reflexivity. Qed.

Print Assumptions dec_enc_manifest_any.
Print Assumptions dec_enc_manifest_old.
Print Assumptions enc_manifest_old_perm.
Print Assumptions asorted_ssorted.
