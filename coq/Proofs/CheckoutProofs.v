(* Checkout theorems for Model/Cache.v: C19 (copy checkouts are verified), C06 (checkout never
   destroys what is in the way), C15 (checkout is idempotent), C01 (commit / checkout round trip).
   The statements are the Props of Proofs/CacheDefs.v; where one of them is false for the model
   as written, the counterexample and the repaired statement are given explicitly. *)
From Coq Require Import NArith List Bool Sorted Lia PeanoNat.
From DudV Require Import Base.Bytes Base.JsonStr Base.Json Model.Fs Model.Cache Proofs.CacheDefs.
Import ListNotations.
Local Open Scope N_scope.

(* ================================================================== *)
(* bltb is a strict total order                                        *)
(* ================================================================== *)

Lemma bltb_irrefl a : bltb a a = false.
Proof.
  induction a as [|x a IH]; cbn [bltb]; [reflexivity|].
  rewrite N.ltb_irrefl. exact IH.
Qed.

Lemma bltb_trans a b c : bltb a b = true -> bltb b c = true -> bltb a c = true.
Proof.
  revert b c; induction a as [|x a IH]; intros [|y b] [|z c]; cbn [bltb]; try congruence; auto.
  destruct (N.ltb_spec x y) as [Hxy|Hxy]; destruct (N.ltb_spec y x) as [Hyx|Hyx];
  destruct (N.ltb_spec y z) as [Hyz|Hyz]; destruct (N.ltb_spec z y) as [Hzy|Hzy];
  destruct (N.ltb_spec x z) as [Hxz|Hxz]; destruct (N.ltb_spec z x) as [Hzx|Hzx];
  intros Hab Hbc; try reflexivity; try discriminate; try lia.
  eapply IH; eassumption.
Qed.

Lemma bltb_tricho a b : beqb a b = false -> bltb a b = false -> bltb b a = true.
Proof.
  revert b; induction a as [|x a IH]; intros [|y b]; cbn [bltb beqb]; try congruence; auto.
  destruct (N.ltb_spec x y) as [Hxy|Hxy]; destruct (N.ltb_spec y x) as [Hyx|Hyx];
  destruct (N.eqb_spec x y) as [Exy|Exy]; cbn [andb]; intros Hne Hlt;
  try reflexivity; try discriminate; try lia.
  apply IH; assumption.
Qed.

Lemma bltb_asym a b : bltb a b = true -> bltb b a = false.
Proof.
  intros Hab. destruct (bltb b a) eqn:Hba; [|reflexivity].
  pose proof (bltb_trans _ _ _ Hab Hba) as Haa. rewrite bltb_irrefl in Haa. discriminate.
Qed.

Lemma bltb_neq a b : bltb a b = true -> a <> b.
Proof. intros Hab ->. rewrite bltb_irrefl in Hab. discriminate. Qed.

Lemma beqb_neq a b : a <> b -> beqb a b = false.
Proof.
  intros Hne. destruct (beqb a b) eqn:E; [|reflexivity]. apply beqb_eq in E. contradiction.
Qed.

Lemma beqb_false_neq a b : beqb a b = false -> a <> b.
Proof. intros E ->. rewrite beqb_refl in E. discriminate. Qed.

(* ================================================================== *)
(* association lists: alookup / ins_sorted / aremove / dset           *)
(* ================================================================== *)

Definition klt {A} (a b : bytes * A) : Prop := bltb (fst a) (fst b) = true.

Section Assoc.
  Context {A : Type}.
  Implicit Types (l : list (bytes * A)) (k : bytes) (v : A).

  (* lookup laws: these hold for ARBITRARY lists, sorted or not *)
  Lemma alookup_ins_same k v l : alookup k (ins_sorted k v l) = Some v.
  Proof.
    induction l as [|[k1 v1] r IH]; cbn [ins_sorted alookup].
    - rewrite beqb_refl. reflexivity.
    - destruct (beqb k k1) eqn:E1.
      + cbn [alookup]. rewrite beqb_refl. reflexivity.
      + destruct (bltb k k1).
        * cbn [alookup]. rewrite beqb_refl. reflexivity.
        * cbn [alookup]. rewrite E1. exact IH.
  Qed.

  Lemma alookup_ins_other k k' v l : k' <> k -> alookup k' (ins_sorted k v l) = alookup k' l.
  Proof.
    intros Hne. pose proof (beqb_neq _ _ Hne) as En.
    induction l as [|[k1 v1] r IH]; cbn [ins_sorted alookup].
    - rewrite En. reflexivity.
    - destruct (beqb k k1) eqn:E1.
      + apply beqb_eq in E1. subst k1. cbn [alookup]. rewrite En. reflexivity.
      + destruct (bltb k k1).
        * cbn [alookup]. rewrite En. reflexivity.
        * cbn [alookup]. destruct (beqb k' k1); [reflexivity|exact IH].
  Qed.

  Lemma alookup_aremove_same k l : alookup k (aremove k l) = None.
  Proof.
    induction l as [|[k1 v1] r IH]; cbn [aremove alookup]; [reflexivity|].
    destruct (beqb k k1) eqn:E1; [exact IH|]. cbn [alookup]. rewrite E1. exact IH.
  Qed.

  Lemma alookup_aremove_other k k' l : k' <> k -> alookup k' (aremove k l) = alookup k' l.
  Proof.
    intros Hne. induction l as [|[k1 v1] r IH]; cbn [aremove alookup]; [reflexivity|].
    destruct (beqb k k1) eqn:E1.
    - apply beqb_eq in E1. subst k1. rewrite (beqb_neq _ _ Hne). exact IH.
    - cbn [alookup]. destruct (beqb k' k1); [reflexivity|exact IH].
  Qed.

  Lemma alookup_In k v l : alookup k l = Some v -> In (k, v) l.
  Proof.
    induction l as [|[k1 v1] r IH]; cbn [alookup]; [discriminate|].
    destruct (beqb k k1) eqn:E1.
    - apply beqb_eq in E1. subst k1. intros [= ->]. left. reflexivity.
    - intros Hl. right. apply IH. exact Hl.
  Qed.

  Lemma alookup_None_notin k l : (forall e, In e l -> fst e <> k) -> alookup k l = None.
  Proof.
    induction l as [|[k1 v1] r IH]; intros Hall; cbn [alookup]; [reflexivity|].
    rewrite (beqb_neq k k1).
    - apply IH. intros e He. apply Hall. right. exact He.
    - intros ->. apply (Hall (k1, v1)); [left; reflexivity|reflexivity].
  Qed.

  Lemma Forall_ins_sorted (P : bytes * A -> Prop) k v l :
    P (k, v) -> Forall P l -> Forall P (ins_sorted k v l).
  Proof.
    intros Hk. induction l as [|[k1 v1] r IH]; intros Hl; cbn [ins_sorted].
    - constructor; [exact Hk|constructor].
    - inversion Hl as [|x y Hx Hr]; subst.
      destruct (beqb k k1); [constructor; assumption|].
      destruct (bltb k k1); [constructor; assumption|].
      constructor; [assumption|]. apply IH. assumption.
  Qed.

  Lemma ins_sorted_sorted k v l : StronglySorted klt l -> StronglySorted klt (ins_sorted k v l).
  Proof.
    induction l as [|[k1 v1] r IH]; intros Hs; cbn [ins_sorted].
    - constructor; constructor.
    - inversion Hs as [|x y Hr Hall]; subst.
      destruct (beqb k k1) eqn:E1.
      + apply beqb_eq in E1. subst k1. constructor; assumption.
      + destruct (bltb k k1) eqn:E2.
        * constructor; [exact Hs|]. constructor; [exact E2|].
          eapply Forall_impl; [|exact Hall]. intros e He. unfold klt in *. cbn [fst] in *.
          eapply bltb_trans; eassumption.
        * constructor; [apply IH; exact Hr|].
          apply Forall_ins_sorted; [|exact Hall].
          unfold klt. cbn [fst]. apply bltb_tricho; [exact E1|exact E2].
  Qed.

  Lemma sort_kv_sorted l : StronglySorted klt (sort_kv l).
  Proof.
    unfold sort_kv.
    assert (Hgen : forall acc, StronglySorted klt acc ->
              StronglySorted klt (fold_left (fun acc kv => ins_sorted (fst kv) (snd kv) acc) l acc)).
    { induction l as [|e r IH]; intros acc Hacc; cbn [fold_left]; [exact Hacc|].
      apply IH. apply ins_sorted_sorted. exact Hacc. }
    apply Hgen. constructor.
  Qed.

  (* on a strictly sorted list, re-inserting a binding that is already there changes nothing *)
  Lemma ins_sorted_id k v l : StronglySorted klt l -> alookup k l = Some v -> ins_sorted k v l = l.
  Proof.
    induction l as [|[k1 v1] r IH]; intros Hs; cbn [ins_sorted alookup]; [discriminate|].
    inversion Hs as [|x y Hr Hall]; subst.
    destruct (beqb k k1) eqn:E1.
    - apply beqb_eq in E1. subst k1. intros [= ->]. reflexivity.
    - intros Hl. pose proof (alookup_In _ _ _ Hl) as Hin.
      rewrite Forall_forall in Hall. specialize (Hall _ Hin). unfold klt in Hall. cbn [fst] in Hall.
      rewrite (bltb_asym _ _ Hall). rewrite (IH Hr Hl). reflexivity.
  Qed.

  (* inserting a key above all present keys appends *)
  Lemma ins_sorted_snoc k v l :
    Forall (fun e => bltb (fst e) k = true) l -> ins_sorted k v l = l ++ [(k, v)].
  Proof.
    induction l as [|[k1 v1] r IH]; intros Hall; cbn [ins_sorted app]; [reflexivity|].
    inversion Hall as [|x y Hx Hr]; subst. cbn [fst] in Hx.
    rewrite (beqb_neq k k1).
    - rewrite (bltb_asym _ _ Hx). rewrite (IH Hr). reflexivity.
    - intros ->. rewrite bltb_irrefl in Hx. discriminate.
  Qed.

  Lemma sorted_head_notin k v l : StronglySorted klt ((k, v) :: l) -> forall e, In e l -> fst e <> k.
  Proof.
    intros Hs e He. inversion Hs as [|x y Hr Hall]; subst.
    rewrite Forall_forall in Hall. specialize (Hall _ He). unfold klt in Hall. cbn [fst] in Hall.
    intros E. rewrite E in Hall. rewrite bltb_irrefl in Hall. discriminate.
  Qed.
End Assoc.

Lemma alookup_dset_same es k v : alookup k (dset es k v) = v.
Proof.
  destruct v as [n|]; cbn [dset]; [apply alookup_ins_same|apply alookup_aremove_same].
Qed.

Lemma alookup_dset_other es k k' v : k' <> k -> alookup k' (dset es k v) = alookup k' es.
Proof.
  intros Hne. destruct v as [n|]; cbn [dset];
    [apply alookup_ins_other|apply alookup_aremove_other]; exact Hne.
Qed.

(* ================================================================== *)
(* what dec_manifest guarantees about its result                      *)
(* ================================================================== *)

Lemma fold_left_none {B C} (step : option B -> C -> option B) (l : list C) :
  (forall x, step None x = None) -> fold_left step l None = None.
Proof.
  intros Hn. induction l as [|x r IH]; cbn [fold_left]; [reflexivity|]. rewrite Hn. exact IH.
Qed.

Lemma fold_left_opt_inv {B C} (P : B -> Prop) (step : option B -> C -> option B) :
  (forall x, step None x = None) ->
  (forall b x b', step (Some b) x = Some b' -> P b -> P b') ->
  forall l b b', fold_left step l (Some b) = Some b' -> P b -> P b'.
Proof.
  intros Hn Hs. induction l as [|x r IH]; intros b b' Hf Hb; cbn [fold_left] in Hf.
  - injection Hf as <-. exact Hb.
  - destruct (step (Some b) x) as [b1|] eqn:E.
    + eapply IH; [exact Hf|]. eapply Hs; eassumption.
    + rewrite fold_left_none in Hf by exact Hn. discriminate.
Qed.

Lemma dec_manifest_v_inv v m :
  dec_manifest_v v = Some m ->
  StronglySorted klt (m_contents m) /\
  Forall (fun kv => a_path (snd kv) = fst kv /\ valid_entry_name (fst kv) = true) (m_contents m).
Proof.
  unfold dec_manifest_v. destruct v as [| | | | |kv]; try discriminate.
  cbv zeta.
  match goal with |- context [fold_left ?s kv ?i] => set (step := s) end.
  destruct (fold_left step kv (Some (mkMan [] []))) as [m0|] eqn:Ef; [|discriminate].
  destruct (forallb _ (m_contents m0)) eqn:Efa; [|discriminate].
  intros [= <-]. split.
  - eapply (fold_left_opt_inv (fun m => StronglySorted klt (m_contents m)) step); [| |exact Ef|].
    + intros x. reflexivity.
    + intros b x b' Hst Hb. unfold step in Hst.
      destruct (fold_eq (fst x) s_path).
      { destruct (snd x); try discriminate; injection Hst as <-; cbn [m_contents]; exact Hb. }
      destruct (fold_eq (fst x) s_contents).
      { destruct (snd x) as [| | | | |ckv]; try discriminate.
        - injection Hst as <-. exact Hb.
        - destruct (dec_children ckv); [|discriminate]. injection Hst as <-. cbn [m_contents].
          apply sort_kv_sorted. }
      injection Hst as <-. exact Hb.
    + cbn [m_contents]. constructor.
  - rewrite forallb_forall in Efa. apply Forall_forall. intros e He. specialize (Efa _ He).
    apply andb_true_iff in Efa as [E1 E2]. apply beqb_eq in E1. split; assumption.
Qed.

Lemma dec_manifest_inv b m :
  dec_manifest b = Some m ->
  StronglySorted klt (m_contents m) /\
  Forall (fun kv => a_path (snd kv) = fst kv /\ valid_entry_name (fst kv) = true) (m_contents m).
Proof.
  unfold dec_manifest. destruct (parse_json b) as [v|]; [|discriminate]. apply dec_manifest_v_inv.
Qed.

Lemma dec_manifest_sorted b m : dec_manifest b = Some m -> StronglySorted klt (m_contents m).
Proof. intros Hd. apply (dec_manifest_inv _ _ Hd). Qed.

(* ================================================================== *)
(* checkout_file: the decision table                                  *)
(* ================================================================== *)

Section Checkout.
  Variable H : bytes -> bytes.

  Lemma qmatch_true c cs slot :
    qmatch c cs slot = true -> slot = Some (LinkC cs) /\ has_cs cs = true /\ in_cache c cs = true.
  Proof.
    unfold qmatch. intros Hq. apply andb_true_iff in Hq as [Hq H3]. apply andb_true_iff in Hq as [H1 H2].
    destruct slot as [[b|d|t|es|]|]; try discriminate. apply beqb_eq in H3. subst d. auto.
  Qed.

  Lemma qmatch_link c cs o : has_cs cs = true -> cget c cs = Some o -> qmatch c cs (Some (LinkC cs)) = true.
  Proof.
    intros Hh Hc. unfold qmatch, in_cache. rewrite Hh, Hc, beqb_refl. reflexivity.
  Qed.

  Lemma qmatch_false c cs slot : slot <> Some (LinkC cs) -> qmatch c cs slot = false.
  Proof.
    intros Hne. destruct (qmatch c cs slot) eqn:E; [|reflexivity].
    apply qmatch_true in E as [E _]. contradiction.
  Qed.

  Lemma checkout_file_ok a slot c st r :
    checkout_file H a slot c st = Ok r ->
    has_cs (a_cs a) = true /\ exists o, cget c (a_cs a) = Some o /\
      ((exists b, slot = Some (File b) /\ H b = a_cs a /\ r = slot) \/
       (slot = Some (LinkC (a_cs a)) /\ st = Link /\ r = slot) \/
       (slot = None /\ st = Link /\ r = Some (LinkC (a_cs a))) \/
       ((slot = None \/ slot = Some (LinkC (a_cs a))) /\ st = Copy /\
        H (o_data o) = a_cs a /\ r = Some (File (o_data o)))).
  Proof.
    unfold checkout_file. destruct (has_cs (a_cs a)) eqn:Hh; cbn [negb]; [|discriminate].
    destruct (cget c (a_cs a)) as [o|] eqn:Hc; [|discriminate].
    intros Hr. split; [reflexivity|]. exists o. split; [reflexivity|].
    destruct slot as [[b|d|t|es|]|].
    - destruct (beqb (H b) (a_cs a)) eqn:E; [|discriminate]. apply beqb_eq in E.
      injection Hr as <-. left. exists b. auto.
    - destruct (qmatch c (a_cs a) (Some (LinkC d))) eqn:Hq.
      + apply qmatch_true in Hq as [Hq _]. injection Hq as ->.
        destruct st.
        * injection Hr as <-. right. left. auto.
        * cbn [orb] in Hr. destruct (beqb (H (o_data o)) (a_cs a)) eqn:E; [|discriminate].
          apply beqb_eq in E. injection Hr as <-. right. right. right. auto.
      + destruct st; cbn [orb] in Hr; discriminate.
    - rewrite qmatch_false in Hr by discriminate. destruct st; cbn [orb] in Hr; discriminate.
    - rewrite qmatch_false in Hr by discriminate. destruct st; cbn [orb] in Hr; discriminate.
    - rewrite qmatch_false in Hr by discriminate. destruct st; cbn [orb] in Hr; discriminate.
    - rewrite qmatch_false in Hr by discriminate. destruct st; cbn [orb] in Hr.
      + injection Hr as <-. right. right. left. auto.
      + destruct (beqb (H (o_data o)) (a_cs a)) eqn:E; [|discriminate].
        apply beqb_eq in E. injection Hr as <-. right. right. right. auto.
  Qed.

  (* ---------------- C19, file level ---------------- *)
  Theorem copy_verified : stmt_copy_verified H.
  Proof.
    intros a slot c b Hr.
    apply checkout_file_ok in Hr as (_ & o & _ & [(b0 & -> & Hb & [= ->])|[(_ & Hst & _)|[(_ & Hst & _)|(_ & _ & Ho & [= ->])]]]);
      try discriminate; assumption.
  Qed.

  (* ---------------- C06, file level ---------------- *)
  Theorem checkout_file_frame : stmt_checkout_file_frame H.
  Proof.
    intros a slot c st r Hr.
    apply checkout_file_ok in Hr as (_ & o & Hc & [(b0 & -> & Hb & ->)|[(-> & -> & ->)|[(-> & -> & ->)|([-> | ->] & -> & Ho & ->)]]]); auto.
    right. right. split; [reflexivity|]. exists o. auto.
  Qed.

  Lemma checkout_file_some a slot c st r : checkout_file H a slot c st = Ok r -> exists n, r = Some n.
  Proof.
    intros Hr.
    apply checkout_file_ok in Hr as (_ & o & Hc & [(b0 & -> & Hb & ->)|[(-> & -> & ->)|[(-> & -> & ->)|(_ & -> & Ho & ->)]]]); eauto.
  Qed.

  Lemma checkout_file_idem a slot c st r :
    checkout_file H a slot c st = Ok r -> checkout_file H a r c st = Ok r.
  Proof.
    intros Hr. pose proof Hr as Hr0.
    apply checkout_file_ok in Hr as (Hh & o & Hc & [(b0 & -> & Hb & ->)|[(-> & -> & ->)|[(-> & -> & ->)|(_ & -> & Ho & ->)]]]).
    - exact Hr0.
    - exact Hr0.
    - unfold checkout_file. rewrite Hh, Hc. cbn [negb]. rewrite (qmatch_link _ _ _ Hh Hc). reflexivity.
    - unfold checkout_file. rewrite Hh, Hc. cbn [negb]. rewrite Ho, beqb_refl. reflexivity.
  Qed.

  (* ---------------- C06, failure side (file) ---------------- *)
  Lemma checkout_file_obstructed_gen a slot c st :
    (forall b, slot = Some (File b) -> H b <> a_cs a) ->
    slot <> None -> slot <> Some (LinkC (a_cs a)) ->
    checkout_file H a slot c st = Err.
  Proof.
    intros Hf Hn Hl. destruct (checkout_file H a slot c st) as [r|] eqn:Hr; [|reflexivity].
    apply checkout_file_ok in Hr as (_ & o & _ & [(b0 & -> & Hb & _)|[(-> & _)|[(-> & _)|([-> | ->] & _)]]]);
      try contradiction.
    exfalso. apply (Hf b0); [reflexivity|exact Hb].
  Qed.

  Theorem C06_obstructed_file a c st b :
    H b <> a_cs a -> checkout_file H a (Some (File b)) c st = Err.
  Proof.
    intros Hb. apply checkout_file_obstructed_gen; try discriminate. intros b' [= <-]. exact Hb.
  Qed.
  Theorem C06_obstructed_dir a c st es : checkout_file H a (Some (Dir es)) c st = Err.
  Proof. apply checkout_file_obstructed_gen; discriminate. Qed.
  Theorem C06_obstructed_other a c st : checkout_file H a (Some Other) c st = Err.
  Proof. apply checkout_file_obstructed_gen; discriminate. Qed.
  Theorem C06_obstructed_linko a c st t : checkout_file H a (Some (LinkO t)) c st = Err.
  Proof. apply checkout_file_obstructed_gen; discriminate. Qed.
  Theorem C06_obstructed_linkc a c st d : d <> a_cs a -> checkout_file H a (Some (LinkC d)) c st = Err.
  Proof.
    intros Hd. apply checkout_file_obstructed_gen; try discriminate. intros [= E]. contradiction.
  Qed.

  (* ================================================================== *)
  (* checkout_node: the inner loop as a top-level function              *)
  (* ================================================================== *)

  Fixpoint co_go (f : nat) (c : cache) (st : strategy) (kids : list (bytes * artifact))
           (es : list (bytes * node)) : res (list (bytes * node)) :=
    match kids with
    | [] => Ok es
    | (name, child) :: r =>
      match checkout_node H f child (alookup name es) c st with
      | Ok v => co_go f c st r (dset es name v)
      | Err => Err
      end
    end.

  Definition slot_entries (slot : option node) : list (bytes * node) :=
    match slot with Some (Dir es) => es | _ => [] end.

  Lemma checkout_node_S f a slot c st :
    checkout_node H (S f) a slot c st =
    if a_isdir a then
      if negb (has_cs (a_cs a)) then Err
      else match cget c (a_cs a) with
           | None => Err
           | Some o =>
             match slot with
             | None | Some (Dir _) =>
               match dec_manifest (o_data o) with
               | None => Err
               | Some m =>
                 match co_go f c st (m_contents m) (slot_entries slot) with
                 | Ok es' => Ok (Some (Dir es'))
                 | Err => Err
                 end
               end
             | _ => Err
             end
           end
    else checkout_file H a slot c st.
  Proof.
    cbn [checkout_node]. destruct (a_isdir a); [|reflexivity].
    destruct (negb (has_cs (a_cs a))); [reflexivity|].
    destruct (cget c (a_cs a)) as [o|]; [|reflexivity].
    assert (Hgo : forall es0,
      match
        (fix go (kids : list (bytes * artifact)) (es : list (bytes * node)) {struct kids}
           : res (list (bytes * node)) :=
           match kids with
           | [] => Ok es
           | (name, child) :: r =>
             match checkout_node H f child (alookup name es) c st with
             | Ok v => go r (dset es name v)
             | Err => Err
             end
           end) (match dec_manifest (o_data o) with Some m => m_contents m | None => [] end) es0
      with Ok es' => Ok (Some (Dir es')) | Err => Err end =
      match co_go f c st (match dec_manifest (o_data o) with Some m => m_contents m | None => [] end) es0
      with Ok es' => Ok (Some (Dir es')) | Err => @Err (option node) end).
    { intros es0. generalize (match dec_manifest (o_data o) with Some m => m_contents m | None => [] end).
      intros kids. revert es0. induction kids as [|[name child] r IH]; intros es0; [reflexivity|].
      cbn [co_go]. destruct (checkout_node H f child (alookup name es0) c st); [|reflexivity].
      apply IH. }
    destruct slot as [[b|d|t|es|]|]; try reflexivity;
      destruct (dec_manifest (o_data o)) as [m|]; try reflexivity; cbn [slot_entries]; apply Hgo.
  Qed.

  Lemma checkout_dir_inv f a slot c st r :
    a_isdir a = true -> checkout_node H (S f) a slot c st = Ok r ->
    exists o m es', has_cs (a_cs a) = true /\ cget c (a_cs a) = Some o /\
      dec_manifest (o_data o) = Some m /\ (slot = None \/ exists es, slot = Some (Dir es)) /\
      co_go f c st (m_contents m) (slot_entries slot) = Ok es' /\ r = Some (Dir es').
  Proof.
    intros Hd. rewrite checkout_node_S, Hd.
    destruct (has_cs (a_cs a)) eqn:Hh; cbn [negb]; [|discriminate].
    destruct (cget c (a_cs a)) as [o|] eqn:Hc; [|discriminate].
    intros Hr.
    assert (Hslot : slot = None \/ exists es, slot = Some (Dir es)).
    { destruct slot as [[b|d|t|es|]|]; try discriminate; eauto. }
    assert (Hr' : match dec_manifest (o_data o) with
                  | None => Err
                  | Some m => match co_go f c st (m_contents m) (slot_entries slot) with
                              | Ok es' => Ok (Some (Dir es')) | Err => Err end
                  end = Ok r).
    { destruct Hslot as [->|[es ->]]; exact Hr. }
    destruct (dec_manifest (o_data o)) as [m|] eqn:Hm; [|discriminate].
    destruct (co_go f c st (m_contents m) (slot_entries slot)) as [es'|] eqn:Hg; [|discriminate].
    injection Hr' as <-. exists o, m, es'. auto 10.
  Qed.

  Lemma checkout_dir_intro f a slot c st o m es' :
    a_isdir a = true -> has_cs (a_cs a) = true -> cget c (a_cs a) = Some o ->
    dec_manifest (o_data o) = Some m -> (slot = None \/ exists es, slot = Some (Dir es)) ->
    co_go f c st (m_contents m) (slot_entries slot) = Ok es' ->
    checkout_node H (S f) a slot c st = Ok (Some (Dir es')).
  Proof.
    intros Hd Hh Hc Hm Hslot Hg. rewrite checkout_node_S, Hd, Hh, Hc. cbn [negb].
    destruct Hslot as [->|[es ->]]; rewrite Hm, Hg; reflexivity.
  Qed.

  Lemma checkout_file_node f a slot c st :
    a_isdir a = false -> checkout_node H (S f) a slot c st = checkout_file H a slot c st.
  Proof. intros Hd. rewrite checkout_node_S, Hd. reflexivity. Qed.

  Lemma checkout_node_some f a slot c st r :
    checkout_node H f a slot c st = Ok r -> exists n, r = Some n.
  Proof.
    destruct f as [|f]; [discriminate|]. destruct (a_isdir a) eqn:Hd.
    - intros Hr. apply checkout_dir_inv in Hr as (o & m & es' & _ & _ & _ & _ & _ & ->); eauto.
    - rewrite checkout_file_node by exact Hd. apply checkout_file_some.
  Qed.

  (* a key that is not among the remaining children keeps its entry *)
  Lemma co_go_lookup_other f c st k kids : forall es es',
    co_go f c st kids es = Ok es' -> (forall e, In e kids -> fst e <> k) ->
    alookup k es' = alookup k es.
  Proof.
    induction kids as [|[name child] r IH]; intros es es' Hg Hk; cbn [co_go] in Hg.
    - injection Hg as <-. reflexivity.
    - destruct (checkout_node H f child (alookup name es) c st) as [v|]; [|discriminate].
      rewrite (IH _ _ Hg) by (intros e He; apply Hk; right; exact He).
      apply alookup_dset_other. intros ->. apply (Hk (name, child)); [left; reflexivity|reflexivity].
  Qed.

  (* when the children keys are strictly sorted and absent at the start, every child is checked
     out into an absent slot *)
  Lemma co_go_child f c st kids : forall es es',
    StronglySorted klt kids ->
    co_go f c st kids es = Ok es' ->
    forall k ch, In (k, ch) kids ->
      exists v, checkout_node H f ch (alookup k es) c st = Ok v /\ alookup k es' = v.
  Proof.
    induction kids as [|[name child] r IH]; intros es es' Hs Hg k ch Hin; [contradiction|].
    cbn [co_go] in Hg.
    destruct (checkout_node H f child (alookup name es) c st) as [v|] eqn:Hv; [|discriminate].
    pose proof (sorted_head_notin _ _ _ Hs) as Hnotin.
    inversion Hs as [|x y Hr Hall]; subst.
    destruct Hin as [[= -> ->]|Hin].
    - exists v. split; [exact Hv|].
      rewrite (co_go_lookup_other _ _ _ _ _ _ _ Hg Hnotin). apply alookup_dset_same.
    - destruct (IH _ _ Hr Hg _ _ Hin) as (v' & Hv' & Hl').
      exists v'. split; [|exact Hl'].
      rewrite alookup_dset_other in Hv'; [exact Hv'|]. apply (Hnotin (k, ch) Hin).
  Qed.

  (* more fuel never changes a successful checkout *)
  Lemma co_go_fuel_mono f f' c st :
    (forall a slot r, checkout_node H f a slot c st = Ok r -> checkout_node H f' a slot c st = Ok r) ->
    forall kids es es', co_go f c st kids es = Ok es' -> co_go f' c st kids es = Ok es'.
  Proof.
    intros IHf. induction kids as [|[name child] r IH]; intros es es' Hg; cbn [co_go] in *; [exact Hg|].
    destruct (checkout_node H f child (alookup name es) c st) as [v|] eqn:Hv; [|discriminate].
    rewrite (IHf _ _ _ Hv). apply IH. exact Hg.
  Qed.

  Lemma checkout_fuel_mono f : forall f' a slot c st r,
    (f <= f')%nat -> checkout_node H f a slot c st = Ok r -> checkout_node H f' a slot c st = Ok r.
  Proof.
    induction f as [|f IHf]; intros f' a slot c st r Hle Hr; [discriminate|].
    destruct f' as [|f']; [lia|].
    destruct (a_isdir a) eqn:Hd.
    - apply checkout_dir_inv in Hr as (o & m & es' & Hh & Hc & Hm & Hslot & Hg & ->); [|exact Hd].
      eapply checkout_dir_intro; try eassumption.
      eapply co_go_fuel_mono; [|exact Hg]. intros a' slot' r'. apply IHf. lia.
    - rewrite (checkout_file_node f a slot c st Hd) in Hr.
      rewrite (checkout_file_node f' a slot c st Hd). exact Hr.
  Qed.

  (* ================================================================== *)
  (* C19: copy checkout of a tree                                       *)
  (* ================================================================== *)

  Theorem copy_tree_verified : stmt_copy_tree_verified H.
  Proof.
    intros fuel. induction fuel as [|f IHf]; intros a c n Hr; [discriminate|].
    destruct (a_isdir a) eqn:Hd.
    - apply checkout_dir_inv in Hr as (o & m & es' & Hh & Hc & Hm & _ & Hg & [= ->]); [|exact Hd].
      cbn [slot_entries] in Hg.
      eapply v_dir; [exact Hd|exact Hc|exact Hm|].
      intros k ch Hin.
      destruct (co_go_child _ _ _ _ _ _ (dec_manifest_sorted _ _ Hm) Hg _ _ Hin) as (v & Hv & Hl).
      cbn [alookup] in Hv.
      destruct (checkout_node_some _ _ _ _ _ _ Hv) as [n ->].
      exists n. split; [exact Hl|]. apply IHf. exact Hv.
    - rewrite checkout_file_node in Hr by exact Hd.
      apply checkout_file_ok in Hr as (_ & o & _ & [(b0 & Hs & _)|[(_ & Hst & _)|[(_ & Hst & _)|(_ & _ & Ho & [= ->])]]]);
        try discriminate.
      apply v_file; assumption.
  Qed.

  (* a corrupted cache object (data no longer hashing to its key) reachable from the artifact
     through the manifests makes the copy checkout fail *)
  Inductive reaches (c : cache) : artifact -> artifact -> Prop :=
  | reach_here a : reaches c a a
  | reach_child a o m k ch x :
      a_isdir a = true -> cget c (a_cs a) = Some o -> dec_manifest (o_data o) = Some m ->
      In (k, ch) (m_contents m) -> reaches c ch x -> reaches c a x.

  Definition corrupt (c : cache) (x : artifact) : Prop :=
    a_isdir x = false /\ exists o, cget c (a_cs x) = Some o /\ H (o_data o) <> a_cs x.

  Theorem C19_corrupt_file_fails a o c :
    cget c (a_cs a) = Some o -> H (o_data o) <> a_cs a -> checkout_file H a None c Copy = Err.
  Proof.
    intros Hc Hne. destruct (checkout_file H a None c Copy) as [r|] eqn:Hr; [|reflexivity].
    apply checkout_file_ok in Hr as (_ & o' & Hc' & [(b0 & Hs & _)|[(Hs & _)|[(_ & Hst & _)|(_ & _ & Ho & _)]]]);
      try discriminate.
    rewrite Hc in Hc'. injection Hc' as <-. contradiction.
  Qed.

  Theorem C19_corrupt_fails c a x :
    reaches c a x -> corrupt c x -> forall fuel, checkout_node H fuel a None c Copy = Err.
  Proof.
    intros Hreach (Hxf & o & Hxc & Hxne).
    induction Hreach as [a|a o' m k ch x Hd Hc Hm Hin Hreach IH]; intros [|f]; try reflexivity.
    - rewrite checkout_file_node by exact Hxf. eapply C19_corrupt_file_fails; eassumption.
    - destruct (checkout_node H (S f) a None c Copy) as [r|] eqn:Hr; [|reflexivity]. exfalso.
      apply checkout_dir_inv in Hr as (o2 & m2 & es' & _ & Hc2 & Hm2 & _ & Hg & _); [|exact Hd].
      rewrite Hc in Hc2. injection Hc2 as <-. rewrite Hm in Hm2. injection Hm2 as <-.
      destruct (co_go_child _ _ _ _ _ _ (dec_manifest_sorted _ _ Hm) Hg _ _ Hin) as (v & Hv & _).
      cbn [slot_entries alookup] in Hv. rewrite (IH Hxf Hxc Hxne f) in Hv. discriminate.
  Qed.

  Corollary C19_success_no_corruption fuel a c n :
    checkout_node H fuel a None c Copy = Ok (Some n) ->
    verified H c a n /\ forall x, reaches c a x -> ~ corrupt c x.
  Proof.
    intros Hr. split; [eapply copy_tree_verified; exact Hr|].
    intros x Hx Hcor. rewrite (C19_corrupt_fails _ _ _ Hx Hcor fuel) in Hr. discriminate.
  Qed.

  (* ================================================================== *)
  (* C06: frame                                                         *)
  (* ================================================================== *)

  Lemma preserved_trans c st s1 s2 :
    preserved c st s1 s2 -> forall s3, preserved c st s2 s3 -> preserved c st s1 s3.
  Proof.
    induction 1 as [s|r|d o Hst Hc|es es' Hk IH]; intros s3 H23.
    - exact H23.
    - apply p_new.
    - inversion H23; subst. apply p_copy; auto.
    - inversion H23 as [s| | |es1 es2 Hk2]; subst.
      + apply p_dir. exact Hk.
      + apply p_dir. intros k. apply IH. apply Hk2.
  Qed.

  Lemma co_go_preserved f c st :
    (forall a slot r, checkout_node H f a slot c st = Ok r -> preserved c st slot r) ->
    forall kids es es', co_go f c st kids es = Ok es' ->
    forall k, preserved c st (alookup k es) (alookup k es').
  Proof.
    intros IHf. induction kids as [|[name child] r IH]; intros es es' Hg k; cbn [co_go] in Hg.
    - injection Hg as <-. apply p_same.
    - destruct (checkout_node H f child (alookup name es) c st) as [v|] eqn:Hv; [|discriminate].
      eapply preserved_trans; [|apply (IH _ _ Hg)].
      destruct (beqb k name) eqn:E.
      + apply beqb_eq in E. subst k. rewrite alookup_dset_same. apply IHf in Hv. exact Hv.
      + apply beqb_false_neq in E. rewrite alookup_dset_other by exact E. apply p_same.
  Qed.

  (* the frame property does not even need the workspace entry to be sorted *)
  Theorem checkout_frame_strong fuel : forall a slot c st r,
    checkout_node H fuel a slot c st = Ok r -> preserved c st slot r.
  Proof.
    induction fuel as [|f IHf]; intros a slot c st r Hr; [discriminate|].
    destruct (a_isdir a) eqn:Hd.
    - apply checkout_dir_inv in Hr as (o & m & es' & _ & _ & _ & Hslot & Hg & ->); [|exact Hd].
      destruct Hslot as [->|[es ->]]; [apply p_new|].
      cbn [slot_entries] in Hg. apply p_dir.
      eapply co_go_preserved; [|exact Hg]. intros a' slot' r'. apply IHf.
    - rewrite checkout_file_node in Hr by exact Hd.
      destruct (checkout_file_frame _ _ _ _ _ Hr) as [->|[->|(-> & o & -> & Hc & ->)]].
      + apply p_same.
      + apply p_new.
      + apply p_copy; [reflexivity|exact Hc].
  Qed.

  Theorem checkout_frame : stmt_checkout_frame H.
  Proof. intros fuel a slot c st r _ Hr. eapply checkout_frame_strong. exact Hr. Qed.

  (* failure side for directory artifacts: anything that is not a directory is in the way *)
  Theorem C06_obstructed_node fuel a n c st :
    a_isdir a = true -> is_dir n = false -> checkout_node H fuel a (Some n) c st = Err.
  Proof.
    intros Hd Hn. destruct fuel as [|f]; [reflexivity|].
    destruct (checkout_node H (S f) a (Some n) c st) as [r|] eqn:Hr; [|reflexivity].
    apply checkout_dir_inv in Hr as (o & m & es' & _ & _ & _ & [Hs|[es Hs]] & _); [| |exact Hd].
    - discriminate.
    - injection Hs as ->. discriminate.
  Qed.

  (* and a file artifact never replaces anything but a matching link (node level) *)
  Theorem C06_obstructed_node_file fuel a n c st :
    a_isdir a = false ->
    (forall b, n = File b -> H b <> a_cs a) -> n <> LinkC (a_cs a) ->
    checkout_node H fuel a (Some n) c st = Err.
  Proof.
    intros Hd Hf Hl. destruct fuel as [|f]; [reflexivity|].
    rewrite checkout_file_node by exact Hd.
    apply checkout_file_obstructed_gen; try discriminate.
    - intros b [= ->]. apply (Hf b). reflexivity.
    - intros [= ->]. apply Hl. reflexivity.
  Qed.

  (* C06, failure side, in one statement: the model is a function, so [Err] means that the
     workspace entry is left exactly as it was *)
  Theorem C06_obstructed a c st :
    (forall b, H b <> a_cs a -> checkout_file H a (Some (File b)) c st = Err) /\
    (forall es, checkout_file H a (Some (Dir es)) c st = Err) /\
    checkout_file H a (Some Other) c st = Err /\
    (forall t, checkout_file H a (Some (LinkO t)) c st = Err) /\
    (forall d, d <> a_cs a -> checkout_file H a (Some (LinkC d)) c st = Err) /\
    (forall fuel n, a_isdir a = true -> is_dir n = false ->
                    checkout_node H fuel a (Some n) c st = Err).
  Proof.
    split; [intros b; apply C06_obstructed_file|].
    split; [intros es; apply C06_obstructed_dir|].
    split; [apply C06_obstructed_other|].
    split; [intros t; apply C06_obstructed_linko|].
    split; [intros d; apply C06_obstructed_linkc|].
    intros fuel n; apply C06_obstructed_node.
  Qed.

  (* ================================================================== *)
  (* C15: idempotence                                                   *)
  (* ================================================================== *)

  Definition sorted_slot (s : option node) : Prop :=
    match s with Some n => sorted_tree n | None => True end.

  Lemma sorted_tree_dir es :
    sorted_tree (Dir es) <-> StronglySorted klt es /\ Forall (fun e => sorted_tree (snd e)) es.
  Proof.
    cbn [sorted_tree]. unfold sorted_entries.
    assert (Hall : (fix all (l : list (bytes * node)) : Prop :=
                      match l with [] => True | (_, ch) :: r => sorted_tree ch /\ all r end) es <->
                   Forall (fun e => sorted_tree (snd e)) es).
    { induction es as [|[k ch] r IH].
      - split; [constructor|trivial].
      - split.
        + intros [H1 H2]. constructor; [exact H1|apply IH; exact H2].
        + intros HF. inversion HF as [|x y Hx Hr]; subst. split; [exact Hx|apply IH; exact Hr]. }
    split; intros [H1 H2]; (split; [exact H1|apply Hall; exact H2]).
  Qed.

  Lemma sorted_slot_lookup es k :
    Forall (fun e => sorted_tree (snd e)) es -> sorted_slot (alookup k es).
  Proof.
    intros HF. destruct (alookup k es) as [n|] eqn:E; cbn [sorted_slot]; [|trivial].
    apply alookup_In in E. rewrite Forall_forall in HF. apply (HF _ E).
  Qed.

  Lemma sorted_slot_entries slot :
    sorted_slot slot ->
    StronglySorted klt (slot_entries slot) /\ Forall (fun e => sorted_tree (snd e)) (slot_entries slot).
  Proof.
    destruct slot as [[b|d|t|es|]|]; cbn [slot_entries sorted_slot]; intros Hs;
      try (split; constructor).
    apply sorted_tree_dir. exact Hs.
  Qed.

  Lemma co_go_sorted f c st :
    (forall a slot r, sorted_slot slot -> checkout_node H f a slot c st = Ok r -> sorted_slot r) ->
    forall kids es es',
      StronglySorted klt es -> Forall (fun e => sorted_tree (snd e)) es ->
      co_go f c st kids es = Ok es' ->
      StronglySorted klt es' /\ Forall (fun e => sorted_tree (snd e)) es'.
  Proof.
    intros IHf. induction kids as [|[name child] r IH]; intros es es' Hs Ha Hg; cbn [co_go] in Hg.
    - injection Hg as <-. auto.
    - destruct (checkout_node H f child (alookup name es) c st) as [v|] eqn:Hv; [|discriminate].
      pose proof (IHf _ _ _ (sorted_slot_lookup _ _ Ha) Hv) as Hsv.
      destruct (checkout_node_some _ _ _ _ _ _ Hv) as [n ->]. cbn [dset] in Hg.
      apply (IH (ins_sorted name n es) es'); [apply ins_sorted_sorted; exact Hs| |exact Hg].
      apply Forall_ins_sorted; [exact Hsv|exact Ha].
  Qed.

  Lemma checkout_sorted f : forall a slot c st r,
    sorted_slot slot -> checkout_node H f a slot c st = Ok r -> sorted_slot r.
  Proof.
    induction f as [|f IHf]; intros a slot c st r Hs Hr; [discriminate|].
    destruct (a_isdir a) eqn:Hd.
    - apply checkout_dir_inv in Hr as (o & m & es' & _ & _ & _ & _ & Hg & ->); [|exact Hd].
      cbn [sorted_slot]. apply sorted_tree_dir.
      destruct (sorted_slot_entries _ Hs) as [H1 H2].
      eapply co_go_sorted; [|exact H1|exact H2|exact Hg].
      intros a' slot' r'. apply IHf.
    - rewrite checkout_file_node in Hr by exact Hd.
      apply checkout_file_ok in Hr as (_ & o & _ & [(b0 & -> & _ & ->)|[(-> & _ & ->)|[(_ & _ & ->)|(_ & _ & _ & ->)]]]);
        cbn [sorted_slot sorted_tree]; trivial.
  Qed.

  (* after the loop, every child finds in its slot the fixed point of its own checkout *)
  Lemma co_go_fix f c st :
    (forall a slot r, sorted_slot slot -> checkout_node H f a slot c st = Ok r ->
                      checkout_node H f a r c st = Ok r) ->
    forall kids es es',
      StronglySorted klt kids -> StronglySorted klt es -> Forall (fun e => sorted_tree (snd e)) es ->
      co_go f c st kids es = Ok es' ->
      forall k ch, In (k, ch) kids ->
        exists n, alookup k es' = Some n /\ checkout_node H f ch (Some n) c st = Ok (Some n).
  Proof.
    intros IHf. induction kids as [|[name child] r IH]; intros es es' Hsk Hs Ha Hg k ch Hin;
      [contradiction|].
    cbn [co_go] in Hg.
    destruct (checkout_node H f child (alookup name es) c st) as [v|] eqn:Hv; [|discriminate].
    pose proof (sorted_head_notin _ _ _ Hsk) as Hnotin.
    inversion Hsk as [|x y Hr Hall]; subst.
    pose proof (checkout_sorted _ _ _ _ _ _ (sorted_slot_lookup _ _ Ha) Hv) as Hsv.
    pose proof (IHf _ _ _ (sorted_slot_lookup _ _ Ha) Hv) as Hfix.
    destruct (checkout_node_some _ _ _ _ _ _ Hv) as [n ->].
    destruct Hin as [[= -> ->]|Hin].
    - exists n. split; [|exact Hfix].
      rewrite (co_go_lookup_other _ _ _ _ _ _ _ Hg Hnotin). apply alookup_dset_same.
    - cbn [dset] in Hg.
      apply (IH (ins_sorted name n es) es' Hr); [apply ins_sorted_sorted; exact Hs| |exact Hg|exact Hin].
      apply Forall_ins_sorted; [exact Hsv|exact Ha].
  Qed.

  Lemma co_go_stable f c st kids : forall es,
    StronglySorted klt es ->
    (forall k ch, In (k, ch) kids ->
       exists n, alookup k es = Some n /\ checkout_node H f ch (Some n) c st = Ok (Some n)) ->
    co_go f c st kids es = Ok es.
  Proof.
    induction kids as [|[name child] r IH]; intros es Hs Hall; cbn [co_go]; [reflexivity|].
    destruct (Hall name child (or_introl eq_refl)) as (n & Hl & Hc).
    rewrite Hl, Hc. cbn [dset]. rewrite (ins_sorted_id _ _ _ Hs Hl).
    apply IH; [exact Hs|]. intros k ch Hin. apply Hall. right. exact Hin.
  Qed.

  Lemma checkout_idem_gen f : forall a slot c st r,
    sorted_slot slot -> checkout_node H f a slot c st = Ok r -> checkout_node H f a r c st = Ok r.
  Proof.
    induction f as [|f IHf]; intros a slot c st r Hs Hr; [discriminate|].
    destruct (a_isdir a) eqn:Hd.
    - apply checkout_dir_inv in Hr as (o & m & es' & Hh & Hc & Hm & _ & Hg & ->); [|exact Hd].
      destruct (sorted_slot_entries _ Hs) as [H1 H2].
      eapply checkout_dir_intro; try eassumption; [right; eexists; reflexivity|].
      cbn [slot_entries].
      assert (Hs' : StronglySorted klt es').
      { eapply co_go_sorted; [|exact H1|exact H2|exact Hg]. intros a' slot' r'. apply checkout_sorted. }
      apply co_go_stable; [exact Hs'|].
      exact (co_go_fix f c st (fun a' slot' r' => IHf a' slot' c st r') (m_contents m)
               (slot_entries slot) es' (dec_manifest_sorted _ _ Hm) H1 H2 Hg).
    - rewrite (checkout_file_node f a slot c st Hd) in Hr. rewrite (checkout_file_node f a r c st Hd).
      apply checkout_file_idem with (slot := slot). exact Hr.
  Qed.

  Theorem checkout_idem : stmt_checkout_idem H.
  Proof. intros fuel a slot c st r Hs Hr. eapply checkout_idem_gen; [exact Hs|exact Hr]. Qed.

End Checkout.


(* ================================================================== *)
(* C01: commit / checkout round trip                                  *)
(* ================================================================== *)

(* [stmt_roundtrip] of CacheDefs.v is FALSE for the model as written (machine-checked refutation:
   [RoundtripCex.roundtrip_refuted] at the end of this file): [cache_inv] allows an old manifest with a dangling
   directory-child checksum; a FILE of the tree whose bytes happen to be a manifest with a
   flagged child (disable-recursion / skip-cache) fills that key during the commit, and the
   sibling directory is then committed against it.  The extra premise [benign n] excludes files
   whose bytes decode as a manifest with flagged children; nothing else is added. *)
Fixpoint benign (n : node) : Prop :=
  match n with
  | File b => forall m, dec_manifest b = Some m -> Forall (fun kv => plain_child (snd kv)) (m_contents m)
  | Dir es => (fix all (l : list (bytes * node)) : Prop :=
                 match l with [] => True | (_, ch) :: r => benign ch /\ all r end) es
  | _ => True
  end.

Lemma benign_dir es : benign (Dir es) <-> Forall (fun e => benign (snd e)) es.
Proof.
  cbn [benign]. induction es as [|[k ch] r IH].
  - split; [constructor|trivial].
  - split.
    + intros [H1 H2]. constructor; [exact H1|apply IH; exact H2].
    + intros HF. inversion HF as [|x y Hx Hr]; subst. split; [exact Hx|apply IH; exact Hr].
Qed.

Lemma node_ind' (P : node -> Prop) :
  (forall b, P (File b)) -> (forall d, P (LinkC d)) -> (forall t, P (LinkO t)) -> P Other ->
  (forall es, Forall (fun e => P (snd e)) es -> P (Dir es)) -> forall n, P n.
Proof.
  intros Hf Hc Ho Hot Hd. fix IH 1. intros [b|d|t|es|]; [apply Hf|apply Hc|apply Ho| |apply Hot].
  apply Hd. induction es as [|[k ch] r IHr]; constructor; [apply IH|exact IHr].
Qed.

Lemma cache_le_refl c : cache_le c c.
Proof. intros d o Hg. exists o. auto. Qed.

Lemma cache_le_trans c1 c2 c3 : cache_le c1 c2 -> cache_le c2 c3 -> cache_le c1 c3.
Proof.
  intros H12 H23 d o Hg. destruct (H12 _ _ Hg) as (o2 & Hg2 & E2).
  destruct (H23 _ _ Hg2) as (o3 & Hg3 & E3). exists o3. split; [exact Hg3|congruence].
Qed.

Lemma cget_cput_same c d b : cget (cput c d b) d = Some (mkObj b cache_perms).
Proof. unfold cget, cput. apply alookup_ins_same. Qed.

Lemma cget_cput_other c d d' b : d' <> d -> cget (cput c d b) d' = cget c d'.
Proof. unfold cget, cput. apply alookup_ins_other. Qed.

Lemma tracked_view_rec a n : a_norec a = false -> tracked_view a n = n.
Proof. intros Hn. destruct n; cbn [tracked_view]; try reflexivity. rewrite Hn. reflexivity. Qed.

Section Roundtrip.
  Variable H : bytes -> bytes.
  Hypothesis Hinj : H_inj H.
  Hypothesis Hhas : H_has H.
  Hypothesis Htext : H_text H.
  Hypothesis Hcodec : codec_ok.

  Lemma cput_le c b : cache_ok H c -> cache_le c (cput c (H b) b).
  Proof.
    intros Hok d o Hg. destruct (beqb d (H b)) eqn:E.
    - apply beqb_eq in E. subst d. exists (mkObj b cache_perms). split; [apply cget_cput_same|].
      cbn [o_data]. destruct (Hok _ _ Hg) as [Hd _]. apply Hinj. exact Hd.
    - apply beqb_false_neq in E. exists o. split; [|reflexivity].
      rewrite cget_cput_other by exact E. exact Hg.
  Qed.

  Lemma cput_ok c b : cache_ok H c -> cache_ok H (cput c (H b) b).
  Proof.
    intros Hok d o Hg. destruct (beqb d (H b)) eqn:E.
    - apply beqb_eq in E. subst d. rewrite cget_cput_same in Hg. injection Hg as <-.
      cbn [o_data o_mode]. auto.
    - apply beqb_false_neq in E. rewrite cget_cput_other in Hg by exact E. apply (Hok _ _ Hg).
  Qed.

  Lemma cput_plain c d b :
    man_plain c ->
    (forall m, dec_manifest b = Some m -> Forall (fun kv => plain_child (snd kv)) (m_contents m)) ->
    man_plain (cput c d b).
  Proof.
    intros Hp Hb d' o m Hg Hm. destruct (beqb d' d) eqn:E.
    - apply beqb_eq in E. subst d'. rewrite cget_cput_same in Hg. injection Hg as <-.
      cbn [o_data] in Hm. apply Hb. exact Hm.
    - apply beqb_false_neq in E. rewrite cget_cput_other in Hg by exact E. apply (Hp _ _ _ Hg Hm).
  Qed.

  (* ---- the commit loop as a top-level function ---- *)
  Definition pick_child (old : list (bytes * artifact)) (name : bytes) (ch : node) : artifact :=
    match alookup name old with
    | Some oa => if Bool.eqb (a_isdir oa) (is_dir ch) then oa else fresh_art name (is_dir ch)
    | None => fresh_art name (is_dir ch)
    end.

  Fixpoint cm_go (norec : bool) (old : list (bytes * artifact)) (st : strategy)
           (es : list (bytes * node)) (c : cache)
    : res (list (bytes * node) * cache * list (bytes * artifact)) :=
    match es with
    | [] => Ok ([], c, [])
    | (name, ch) :: r =>
      if norec && is_dir ch then
        match cm_go norec old st r c with
        | Ok (es', c', m) => Ok ((name, ch) :: es', c', m)
        | Err => Err
        end
      else if negb (utf8_name name) then Err
      else
        match commit_node H (pick_child old name ch) ch c st with
        | Err => Err
        | Ok (ch', c1, child') =>
          match cm_go norec old st r c1 with
          | Ok (es', c2, m) => Ok ((name, ch') :: es', c2, (a_path child', child') :: m)
          | Err => Err
          end
        end
    end.

  Lemma commit_node_dir a es c st :
    commit_node H a (Dir es) c st =
    if a_isdir a then
      match old_contents a c with
      | Err => Err
      | Ok old =>
        match cm_go (a_norec a) old st es c with
        | Err => Err
        | Ok (es', c', m) =>
          let mb := enc_manifest (mkMan (a_path a) m) in
          Ok (Dir es', cput c' (H mb) mb, set_cs a (H mb))
        end
      end
    else commit_file H a (Dir es) c st.
  Proof.
    cbn [commit_node]. destruct (a_isdir a); [|reflexivity].
    destruct (old_contents a c) as [old|]; [|reflexivity].
    match goal with
    | |- match ?g es c with _ => _ end = _ =>
      assert (Hgo : forall es c, g es c = cm_go (a_norec a) old st es c)
    end.
    { clear es c. induction es as [|[name ch] r IH]; intros c; [reflexivity|].
      cbn [cm_go]. unfold pick_child. rewrite <- IH.
      destruct (a_norec a && is_dir ch); [reflexivity|].
      destruct (negb (utf8_name name)); [reflexivity|].
      match goal with |- match ?x with _ => _ end = match ?y with _ => _ end =>
        change x with y; destruct y as [[[ch' c1] child']|]; [|reflexivity] end.
      rewrite <- IH. reflexivity. }
    rewrite Hgo. reflexivity.
  Qed.

  Definition old_ok (old : list (bytes * artifact)) : Prop :=
    forall k oa, alookup k old = Some oa -> plain_child oa /\ a_path oa = k.

  Lemma old_contents_ok a c old : man_plain c -> old_contents a c = Ok old -> old_ok old.
  Proof.
    intros Hp. unfold old_contents.
    destruct (has_cs (a_cs a)); [|intros [= <-] k oa Hl; discriminate].
    destruct (cget c (a_cs a)) as [o|] eqn:Hc; [|intros [= <-] k oa Hl; discriminate].
    destruct (dec_manifest (o_data o)) as [m|] eqn:Hm; [|discriminate].
    intros [= <-] k oa Hl. apply alookup_In in Hl.
    pose proof (Hp _ _ _ Hc Hm) as Hall. rewrite Forall_forall in Hall.
    destruct (dec_manifest_inv _ _ Hm) as [_ Hv]. rewrite Forall_forall in Hv.
    split; [apply (Hall _ Hl)|apply (Hv _ Hl)].
  Qed.

  Lemma pick_child_ok old name ch :
    old_ok old ->
    plain_child (pick_child old name ch) /\ a_path (pick_child old name ch) = name /\
    a_isdir (pick_child old name ch) = is_dir ch.
  Proof.
    intros Hold. unfold pick_child.
    destruct (alookup name old) as [oa|] eqn:Hl.
    - destruct (Bool.eqb (a_isdir oa) (is_dir ch)) eqn:E.
      + apply eqb_prop in E. destruct (Hold _ _ Hl) as [H1 H2]. auto.
      + unfold fresh_art, plain_child. cbn [a_norec a_skip a_path a_isdir]. auto.
    - unfold fresh_art, plain_child. cbn [a_norec a_skip a_path a_isdir]. auto.
  Qed.

  (* ---- the strengthened statement, by nested induction on the tree ---- *)
  Definition RT (n : node) : Prop :=
    forall a c st n' c' a',
      plain n -> benign n -> kind_ok a n -> wf_text (a_path a) -> a_skip a = false ->
      cache_ok H c -> man_plain c ->
      commit_node H a n c st = Ok (n', c', a') ->
      cache_le c c' /\ cache_ok H c' /\ man_plain c' /\
      a_path a' = a_path a /\ a_isdir a' = a_isdir a /\ a_norec a' = a_norec a /\
      a_skip a' = a_skip a /\ wf_text (a_cs a') /\
      forall c2 st', cache_le c' c2 ->
        exists n2 fuel0, logical c2 n2 = tracked_view a n /\
          forall f, (fuel0 <= f)%nat -> checkout_node H f a' None c2 st' = Ok (Some n2).

  Definition child_wf (kv : bytes * artifact) : Prop :=
    a_path (snd kv) = fst kv /\ valid_entry_name (fst kv) = true /\
    wf_text (fst kv) /\ wf_text (a_cs (snd kv)) /\ plain_child (snd kv).

  Lemma RT_file b : RT (File b).
  Proof.
    intros a c st n' c' a' _ Hben Hkind Hpath Hskip Hok Hplain Hcm.
    unfold kind_ok in Hkind. cbn [is_dir] in Hkind.
    cbn [commit_node] in Hcm. rewrite Hkind in Hcm. unfold commit_file in Hcm.
    rewrite qmatch_false in Hcm by discriminate. rewrite Hskip in Hcm.
    assert (Hres : c' = cput c (H b) b /\ a' = set_cs a (H b)).
    { destruct st; injection Hcm as _ <- <-; auto. }
    destruct Hres as [-> ->]. clear Hcm.
    split; [apply cput_le; exact Hok|]. split; [apply cput_ok; exact Hok|].
    split; [apply cput_plain; [exact Hplain|exact Hben]|].
    cbn [set_cs a_path a_isdir a_norec a_skip a_cs].
    repeat (split; [reflexivity|]). split; [apply Htext|].
    intros c2 st' Hle.
    destruct (Hle _ _ (cget_cput_same c (H b) b)) as (o' & Hc2 & Hdata). cbn [o_data] in Hdata.
    exists (match st' with Link => LinkC (H b) | Copy => File b end), 1%nat. split.
    - destruct st'; cbn [logical tracked_view]; [rewrite Hc2, Hdata|]; reflexivity.
    - intros f Hf. destruct f as [|f]; [lia|].
      rewrite checkout_file_node by (cbn [set_cs a_isdir]; exact Hkind).
      unfold checkout_file. cbn [set_cs a_cs]. rewrite Hhas, Hc2. cbn [negb].
      rewrite qmatch_false by discriminate. destruct st'; [reflexivity|].
      cbn [orb]. rewrite Hdata, beqb_refl. reflexivity.
  Qed.

  Lemma cm_go_rt : forall es,
    Forall (fun e => RT (snd e)) es ->
    forall norec old st c es' c1 m,
      StronglySorted klt es ->
      Forall (fun e => good_name (fst e) /\ plain (snd e)) es ->
      Forall (fun e => benign (snd e)) es ->
      old_ok old -> cache_ok H c -> man_plain c ->
      cm_go norec old st es c = Ok (es', c1, m) ->
      cache_le c c1 /\ cache_ok H c1 /\ man_plain c1 /\
      Forall child_wf m /\
      (forall k0, Forall (fun e => bltb k0 (fst e) = true) es ->
                  Forall (fun kv => bltb k0 (fst kv) = true) m) /\
      StronglySorted klt m /\
      forall c2 st', cache_le c1 c2 ->
        exists res fuel0,
          map (fun e => (fst e, logical c2 (snd e))) res =
            (if norec then filter (fun e => negb (is_dir (snd e))) es else es) /\
          forall f, (fuel0 <= f)%nat -> forall acc,
            Forall (fun e => Forall (fun kv => bltb (fst e) (fst kv) = true) m) acc ->
            co_go H f c2 st' m acc = Ok (acc ++ res).
  Proof.
    induction es as [|[name ch] r IHr];
      intros HRT norec old st c es' c1 m Hsort Hgood Hben Hold Hok Hplain Hcm.
    - cbn [cm_go] in Hcm. injection Hcm as <- <- <-.
      split; [apply cache_le_refl|]. split; [exact Hok|]. split; [exact Hplain|].
      split; [constructor|]. split; [intros; constructor|]. split; [constructor|].
      intros c2 st' Hle. exists [], 0%nat. split; [destruct norec; reflexivity|].
      intros f _ acc _. cbn [co_go]. rewrite app_nil_r. reflexivity.
    - inversion HRT as [|x y HRTch HRTr]; subst.
      inversion Hsort as [|x y Hsr Hall]; subst.
      inversion Hgood as [|x y [Hgn Hpl] Hgr]; subst. cbn [fst snd] in Hgn, Hpl, HRTch.
      inversion Hben as [|x y Hbch Hbr]; subst. cbn [snd] in Hbch.
      assert (Hall' : Forall (fun e : bytes * node => bltb name (fst e) = true) r) by exact Hall.
      cbn [cm_go] in Hcm.
      destruct (norec && is_dir ch) eqn:Eskip.
      + (* a sub-directory of a non-recursive artifact: not tracked *)
        destruct (cm_go norec old st r c) as [[[es1 cB] m1]|] eqn:Er; [|discriminate].
        injection Hcm as <- <- <-.
        destruct (IHr HRTr _ _ _ _ _ _ _ Hsr Hgr Hbr Hold Hok Hplain Er)
          as (Hle & Hok1 & Hpl1 & Hwf & Hlb & Hsm & Hco).
        split; [exact Hle|]. split; [exact Hok1|]. split; [exact Hpl1|]. split; [exact Hwf|].
        split; [intros k0 Hk0; apply Hlb; inversion Hk0; assumption|]. split; [exact Hsm|].
        intros c2 st' Hle2. destruct (Hco c2 st' Hle2) as (res & fuel0 & Heq & Hrun).
        exists res, fuel0. split; [|exact Hrun].
        apply andb_true_iff in Eskip as [-> Edir]. cbn [filter snd]. rewrite Edir. cbn [negb].
        exact Heq.
      + destruct (negb (utf8_name name)); [discriminate|].
        destruct (pick_child_ok old name ch Hold) as ((Hcn & Hcs) & Hcp & Hcd).
        destruct (commit_node H (pick_child old name ch) ch c st) as [[[ch' cA] child']|] eqn:Ec;
          [|discriminate].
        destruct (cm_go norec old st r cA) as [[[es1 cB] m1]|] eqn:Er; [|discriminate].
        injection Hcm as <- <- <-.
        assert (Hwfname : wf_text name).
        { destruct Hgn as (Hu & _ & Hb). unfold utf8_name in Hu. split; assumption. }
        assert (Hpath : wf_text (a_path (pick_child old name ch))) by (rewrite Hcp; exact Hwfname).
        destruct (HRTch _ _ _ _ _ _ Hpl Hbch Hcd Hpath Hcs Hok Hplain Ec)
          as (HleA & HokA & HplA & Hp' & Hd' & Hn' & Hs' & Hcs' & HcoA).
        rewrite Hcp in Hp'. rewrite Hcn in Hn'. rewrite Hcs in Hs'.
        destruct (IHr HRTr _ _ _ _ _ _ _ Hsr Hgr Hbr Hold HokA HplA Er)
          as (HleB & HokB & HplB & Hwf & Hlb & Hsm & HcoB).
        rewrite Hp'.
        split; [eapply cache_le_trans; eassumption|]. split; [exact HokB|]. split; [exact HplB|].
        split.
        { constructor; [|exact Hwf]. unfold child_wf. cbn [fst snd].
          destruct Hgn as (_ & Hv & _). unfold plain_child. auto 10. }
        split.
        { intros k0 Hk0. inversion Hk0 as [|x y Hk1 Hk2]; subst. cbn [fst] in Hk1.
          constructor; [exact Hk1|apply Hlb; exact Hk2]. }
        split.
        { constructor; [exact Hsm|]. unfold klt. cbn [fst]. apply Hlb. exact Hall'. }
        intros c2 st' Hle2.
        destruct (HcoA c2 st' (cache_le_trans _ _ _ HleB Hle2)) as (n2 & fuelA & Hlog & HrunA).
        destruct (HcoB c2 st' Hle2) as (res & fuelB & Heq & HrunB).
        rewrite (tracked_view_rec _ _ Hcn) in Hlog.
        exists ((name, n2) :: res), (Nat.max fuelA fuelB). split.
        { cbn [map fst snd]. rewrite Hlog, Heq.
          destruct norec; [|reflexivity]. cbn [andb] in Eskip. cbn [filter snd].
          rewrite Eskip. reflexivity. }
        intros f Hf acc Hacc. cbn [co_go].
        assert (Hnone : alookup name acc = None).
        { apply alookup_None_notin. intros e He. rewrite Forall_forall in Hacc.
          specialize (Hacc _ He). inversion Hacc as [|x y Hx _]; subst. cbn [fst] in Hx.
          apply bltb_neq. exact Hx. }
        rewrite Hnone. rewrite (HrunA f) by lia. cbn [dset].
        rewrite ins_sorted_snoc.
        2:{ eapply Forall_impl; [|exact Hacc]. intros e He.
            inversion He as [|x y Hx _]; subst. exact Hx. }
        assert (HfB : (fuelB <= f)%nat) by lia.
        rewrite (HrunB f HfB).
        2:{ apply Forall_app. split.
            - eapply Forall_impl; [|exact Hacc]. intros e He.
              inversion He as [|x y _ Hy]; subst. exact Hy.
            - constructor; [|constructor]. cbn [fst]. apply Hlb. exact Hall'. }
        rewrite <- app_assoc. reflexivity.
  Qed.

  Lemma RT_dir es : Forall (fun e => RT (snd e)) es -> RT (Dir es).
  Proof.
    intros HRT a c st n' c' a' Hpl Hben Hkind Hpath Hskip Hok Hplain Hcm.
    unfold kind_ok in Hkind. cbn [is_dir] in Hkind.
    inversion Hpl as [|es0 Hsort Hgood]; subst.
    apply benign_dir in Hben.
    rewrite commit_node_dir, Hkind in Hcm.
    destruct (old_contents a c) as [old|] eqn:Eold; [|discriminate].
    destruct (cm_go (a_norec a) old st es c) as [[[es' c1] m]|] eqn:Ego; [|discriminate].
    cbv zeta in Hcm. injection Hcm as <- <- <-.
    pose proof (old_contents_ok _ _ _ Hplain Eold) as Hold.
    destruct (cm_go_rt es HRT _ _ _ _ _ _ _ Hsort Hgood Hben Hold Hok Hplain Ego)
      as (Hle & Hok1 & Hpl1 & Hwf & _ & Hsm & Hco).
    set (mb := enc_manifest (mkMan (a_path a) m)).
    assert (Hdec : dec_manifest mb = Some (mkMan (a_path a) m)).
    { apply Hcodec. unfold wf_manifest. cbn [m_path m_contents].
      split; [exact Hpath|]. split; [exact Hsm|exact Hwf]. }
    split; [eapply cache_le_trans; [exact Hle|apply cput_le; exact Hok1]|].
    split; [apply cput_ok; exact Hok1|].
    split.
    { apply cput_plain; [exact Hpl1|]. intros m' Hm'. rewrite Hdec in Hm'. injection Hm' as <-.
      cbn [m_contents]. eapply Forall_impl; [|exact Hwf]. intros kv Hkv. apply Hkv. }
    cbn [set_cs a_path a_isdir a_norec a_skip a_cs].
    repeat (split; [reflexivity|]). split; [apply Htext|].
    intros c2 st' Hle2.
    destruct (Hle2 _ _ (cget_cput_same c1 (H mb) mb)) as (o' & Hc2 & Hdata). cbn [o_data] in Hdata.
    assert (Hle12 : cache_le c1 c2).
    { eapply cache_le_trans; [apply cput_le; exact Hok1|exact Hle2]. }
    destruct (Hco c2 st' Hle12) as (res & fuel0 & Heq & Hrun).
    exists (Dir res), (S fuel0). split.
    - cbn [logical tracked_view]. rewrite Heq. destruct (a_norec a); reflexivity.
    - intros f Hf. destruct f as [|f]; [lia|].
      eapply checkout_dir_intro with (o := o') (m := mkMan (a_path a) m).
      + cbn [set_cs a_isdir]. exact Hkind.
      + cbn [set_cs a_cs]. apply Hhas.
      + cbn [set_cs a_cs]. exact Hc2.
      + rewrite Hdata. exact Hdec.
      + left. reflexivity.
      + cbn [slot_entries m_contents]. assert (Hf' : (fuel0 <= f)%nat) by lia.
        rewrite (Hrun f Hf' [] (Forall_nil _)). reflexivity.
  Qed.

  Lemma RT_all n : RT n.
  Proof.
    induction n as [b|d|t| |es IH] using node_ind'.
    - apply RT_file.
    - intros a c st n' c' a' Hpl. inversion Hpl.
    - intros a c st n' c' a' Hpl. inversion Hpl.
    - intros a c st n' c' a' Hpl. inversion Hpl.
    - apply RT_dir. exact IH.
  Qed.
End Roundtrip.

(* C01, repaired: [stmt_roundtrip] with the one extra premise [benign n] *)
Definition stmt_roundtrip_benign (H : bytes -> bytes) : Prop :=
  H_inj H -> H_has H -> H_text H -> codec_ok -> forall a n c st st' n' c' a',
    plain n -> benign n -> kind_ok a n -> top_art a -> cache_inv H c ->
    commit_node H a n c st = Ok (n', c', a') ->
    exists fuel n2, checkout_node H fuel a' None c' st' = Ok (Some n2) /\
                    logical c' n2 = tracked_view a n.

Theorem roundtrip_benign H : stmt_roundtrip_benign H.
Proof.
  intros Hinj Hhas Htext Hcodec a n c st st' n' c' a' Hpl Hben Hkind [Hpath Hskip] (Hok & Hplain & _) Hcm.
  destruct (RT_all H Hinj Hhas Htext Hcodec n _ _ _ _ _ _ Hpl Hben Hkind Hpath Hskip Hok Hplain Hcm)
    as (_ & _ & _ & _ & _ & _ & _ & _ & Hco).
  destruct (Hco c' st' (cache_le_refl c')) as (n2 & fuel0 & Hlog & Hrun).
  exists fuel0, n2. split; [apply Hrun; lia|exact Hlog].
Qed.

From Coq Require Import String.

(* ================================================================== *)
(* non-vacuity: the functions run                                      *)
(* ================================================================== *)
Module Demo.
  Definition Ht (b : bytes) : bytes := 49 :: 50 :: 51 :: b.
  Definition s (x : string) : bytes := of_string x.
  Definition n0 : node := Dir [(s "a", File (s "hi")); (s "d", Dir [(s "x", File (s "yo"))])].
  Definition a0 : artifact := mkArt [] (s "top") true false false.

  Definition rt_check (st st' : strategy) : bool :=
    match commit_node Ht a0 n0 [] st with
    | Ok (n', c', a') =>
      match checkout_node Ht 3 a' None c' st' with
      | Ok (Some n2) => node_eqb (logical c' n2) (tracked_view a0 n0)
      | _ => false
      end
    | Err => false
    end.
  Example roundtrip_demo :
    rt_check Link Link && rt_check Link Copy && rt_check Copy Link && rt_check Copy Copy = true.
  Proof. vm_compute. reflexivity. Qed.

  (* corrupting one object: copy checkout fails, link checkout does not notice *)
  Definition corrupt_obj (c : cache) (d : bytes) : cache :=
    map (fun kv => if beqb (fst kv) d then (fst kv, mkObj (s "HI") cache_perms) else kv) c.
  Definition co_corrupt (st' : strategy) : option bool :=
    match commit_node Ht a0 n0 [] Copy with
    | Ok (n', c', a') =>
      match checkout_node Ht 3 a' None (corrupt_obj c' (Ht (s "yo"))) st' with
      | Ok _ => Some true | Err => Some false end
    | Err => None
    end.
  Example corrupt_demo : co_corrupt Copy = Some false /\ co_corrupt Link = Some true.
  Proof. vm_compute. auto. Qed.

  (* checkout into a populated directory keeps the foreign entry, and is idempotent; an
     obstructing entry makes it fail *)
  Definition co_into (slot : option node) (st' : strategy) : res (option node) :=
    match commit_node Ht a0 n0 [] Link with
    | Ok (n', c', a') => checkout_node Ht 3 a' slot c' st'
    | Err => Err
    end.
  Example frame_demo :
    co_into (Some (Dir [(s "zzz", File (s "keep"))])) Copy =
      Ok (Some (Dir [(s "a", File (s "hi")); (s "d", Dir [(s "x", File (s "yo"))]);
                     (s "zzz", File (s "keep"))])) /\
    co_into (Some (Dir [(s "a", File (s "hi")); (s "d", Dir [(s "x", File (s "yo"))]);
                        (s "zzz", File (s "keep"))])) Copy =
      Ok (Some (Dir [(s "a", File (s "hi")); (s "d", Dir [(s "x", File (s "yo"))]);
                     (s "zzz", File (s "keep"))])) /\
    co_into (Some (Dir [(s "a", File (s "other"))])) Copy = Err /\
    co_into (Some (Dir [(s "d", File (s "x"))])) Link = Err.
  Proof. vm_compute. auto. Qed.
End Demo.

(* ================================================================== *)
(* stmt_roundtrip is false as stated                                   *)
(* ================================================================== *)
Module RoundtripCex.
  (* an injective hash with textual digests of at least three characters: "000" followed by
     the bits of every byte *)
  Fixpoint pbits (p : positive) : bytes :=
    match p with xH => [] | xO q => 48 :: pbits q | xI q => 49 :: pbits q end.
  Definition encN (n : N) : bytes := match n with N0 => [122] | Npos p => pbits p ++ [44] end.
  Definition Hb (b : bytes) : bytes := 48 :: 48 :: 48 :: flat_map encN b.

  Lemma pbits_inj p1 : forall p2 r1 r2,
    pbits p1 ++ 44 :: r1 = pbits p2 ++ 44 :: r2 -> p1 = p2 /\ r1 = r2.
  Proof.
    induction p1 as [q IH|q IH|]; intros [q2|q2|] r1 r2; cbn [pbits app]; intros E;
      try discriminate E.
    - injection E as E. destruct (IH _ _ _ E) as [-> ->]. auto.
    - injection E as E. destruct (IH _ _ _ E) as [-> ->]. auto.
    - injection E as E. auto.
  Qed.

  Lemma encN_inj n1 n2 r1 r2 : encN n1 ++ r1 = encN n2 ++ r2 -> n1 = n2 /\ r1 = r2.
  Proof.
    destruct n1 as [|p1], n2 as [|p2]; unfold encN; rewrite <- ?app_assoc; cbn [app]; intros E.
    - injection E as E. auto.
    - destruct p2; cbn [pbits app] in E; discriminate E.
    - destruct p1; cbn [pbits app] in E; discriminate E.
    - destruct (pbits_inj _ _ _ _ E) as [-> ->]. auto.
  Qed.

  Lemma Hb_inj : H_inj Hb.
  Proof.
    intros a b E. unfold Hb in E. injection E as E. revert b E.
    induction a as [|x a IH]; intros [|y b] E; cbn [flat_map] in E.
    - reflexivity.
    - destruct y as [|[q|q|]]; discriminate E.
    - destruct x as [|[q|q|]]; discriminate E.
    - destruct (encN_inj _ _ _ _ E) as [-> E']. rewrite (IH _ E'). reflexivity.
  Qed.

  Lemma Hb_has : H_has Hb.
  Proof. intros b. unfold has_cs, Hb. cbn [List.length]. apply N.leb_le. lia. Qed.

  Lemma ascii_valid s : Forall (fun b => b < 128) s -> valid (List.length s) s = true.
  Proof.
    induction 1 as [|b r Hb Hr IH]; [reflexivity|].
    cbn [List.length valid]. apply N.ltb_lt in Hb. rewrite Hb. exact IH.
  Qed.

  Lemma Hb_ascii b : Forall (fun x => x < 128) (Hb b).
  Proof.
    unfold Hb. repeat (constructor; [lia|]).
    induction b as [|n b IH]; cbn [flat_map]; [constructor|].
    apply Forall_app. split; [|exact IH].
    destruct n as [|p]; unfold encN; [repeat constructor; lia|].
    apply Forall_app. split; [|repeat constructor; lia].
    induction p as [q IHq|q IHq|]; cbn [pbits]; try constructor; try lia; assumption.
  Qed.

  Lemma Hb_text : H_text Hb.
  Proof.
    intros b. split; [apply ascii_valid, Hb_ascii|].
    unfold bytes_ok. eapply Forall_impl; [|apply Hb_ascii]. cbv beta. intros x Hx. lia.
  Qed.

  Definition s (x : string) : bytes := of_string x.
  (* the bytes of a FILE: a manifest for "b" whose child "x" is non-recursive *)
  Definition evil : bytes := enc_manifest (mkMan (s "b") [(s "x", mkArt [] (s "x") true true false)]).
  (* the previous manifest of the artifact: its child "b" names a checksum that is not in the cache *)
  Definition M0 : manifest := mkMan (s "top") [(s "b", mkArt (Hb evil) (s "b") true false false)].
  Definition c0 : cache := cput [] (Hb (enc_manifest M0)) (enc_manifest M0).
  Definition a0 : artifact := mkArt (Hb (enc_manifest M0)) (s "top") true false false.
  Definition n0 : node := Dir [(s "a", File evil); (s "b", Dir [(s "x", Dir [(s "y", Dir [])])])].
  (* what every checkout of the committed artifact produces: b/x/y is lost *)
  Definition r1 : node := Dir [(s "a", File evil); (s "b", Dir [(s "x", Dir [])])].

  Definition committed := commit_node Hb a0 n0 c0 Copy.
  Definition n1 : node := match committed with Ok (n, _, _) => n | Err => Other end.
  Definition c1 : cache := match committed with Ok (_, c, _) => c | Err => [] end.
  Definition a1 : artifact := match committed with Ok (_, _, a) => a | Err => a0 end.

  Lemma commit_eq : commit_node Hb a0 n0 c0 Copy = Ok (n1, c1, a1).
  Proof. vm_compute. reflexivity. Qed.

  Lemma checkout10 : checkout_node Hb 10 a1 None c1 Copy = Ok (Some r1).
  Proof. vm_compute. reflexivity. Qed.

  Lemma dec_M0 : dec_manifest (enc_manifest M0) = Some M0.
  Proof. vm_compute. reflexivity. Qed.

  Lemma evil_absent : cget c0 (Hb evil) = None.
  Proof. vm_compute. reflexivity. Qed.

  Lemma c0_get d o : cget c0 d = Some o -> d = Hb (enc_manifest M0) /\ o = mkObj (enc_manifest M0) cache_perms.
  Proof.
    unfold c0, cput, cget. cbn [ins_sorted alookup].
    destruct (beqb d (Hb (enc_manifest M0))) eqn:E; [|discriminate].
    apply beqb_eq in E. intros [= <-]. auto.
  Qed.

  Lemma c0_inv : cache_inv Hb c0.
  Proof.
    split; [|split].
    - intros d o Hg. apply c0_get in Hg as [-> ->]. cbn [o_data o_mode]. auto.
    - intros d o m Hg Hm. apply c0_get in Hg as [-> ->]. cbn [o_data] in Hm.
      rewrite dec_M0 in Hm. injection Hm as <-. cbn [M0 m_contents].
      constructor; [|constructor]. split; reflexivity.
    - intros d o m Hg Hm. apply c0_get in Hg as [-> ->]. cbn [o_data] in Hm.
      rewrite dec_M0 in Hm. injection Hm as <-. cbn [M0 m_contents].
      constructor; [|constructor]. cbn [snd a_cs]. intros _ o' Hg'.
      rewrite evil_absent in Hg'. discriminate.
  Qed.

  Ltac small_bytes :=
    unfold bytes_ok;
    match goal with |- Forall _ ?l => let l' := eval vm_compute in l in change l with l' end;
    repeat (constructor; [lia|]); constructor.
  Ltac good := split; [vm_compute; reflexivity|split; [vm_compute; reflexivity|small_bytes]].

  Lemma n0_plain : plain n0.
  Proof.
    unfold n0. constructor.
    - repeat constructor.
    - constructor; [split; [good|constructor]|]. constructor; [|constructor].
      split; [good|]. constructor; [repeat constructor|]. constructor; [|constructor].
      split; [good|]. constructor; [repeat constructor|]. constructor; [|constructor].
      split; [good|]. constructor; constructor.
  Qed.

  Lemma a0_top : top_art a0.
  Proof.
    split; [|reflexivity]. split; [vm_compute; reflexivity|].
    small_bytes.
  Qed.

  Lemma r1_wrong : logical c1 r1 <> tracked_view a0 n0.
  Proof.
    cbn [tracked_view a0 n0 a_norec r1 logical map fst snd].
    intros E. injection E as E. discriminate E.
  Qed.

  Theorem roundtrip_counterexample :
    plain n0 /\ kind_ok a0 n0 /\ top_art a0 /\ cache_inv Hb c0 /\
    commit_node Hb a0 n0 c0 Copy = Ok (n1, c1, a1) /\
    forall fuel n2, checkout_node Hb fuel a1 None c1 Copy = Ok (Some n2) ->
                    logical c1 n2 <> tracked_view a0 n0.
  Proof.
    split; [exact n0_plain|]. split; [reflexivity|]. split; [exact a0_top|].
    split; [exact c0_inv|]. split; [exact commit_eq|].
    intros fuel n2 Hr.
    assert (n2 = r1) as ->; [|exact r1_wrong].
    destruct (Nat.le_ge_cases fuel 10) as [Hle|Hge].
    - apply (checkout_fuel_mono Hb _ 10) in Hr; [|exact Hle].
      rewrite checkout10 in Hr. injection Hr as <-. reflexivity.
    - pose proof (checkout_fuel_mono Hb _ fuel _ _ _ _ _ Hge checkout10) as Hr'.
      rewrite Hr' in Hr. injection Hr as <-. reflexivity.
  Qed.

  Theorem roundtrip_refuted : codec_ok -> ~ stmt_roundtrip Hb.
  Proof.
    intros Hcodec Hrt.
    destruct roundtrip_counterexample as (Hpl & Hk & Ht & Hi & Hc & Hno).
    destruct (Hrt Hb_inj Hb_has Hb_text Hcodec a0 n0 c0 Copy Copy n1 c1 a1 Hpl Hk Ht Hi Hc)
      as (fuel & n2 & Hr & Hlog).
    exact (Hno fuel n2 Hr Hlog).
  Qed.
  Lemma dec_evil :
    dec_manifest evil = Some (mkMan (s "b") [(s "x", mkArt [] (s "x") true true false)]).
  Proof. vm_compute. reflexivity. Qed.

  (* the witness is exactly what the extra premise of [roundtrip_benign] excludes *)
  Lemma n0_not_benign : ~ benign n0.
  Proof.
    intros Hben. apply benign_dir in Hben. inversion Hben as [|x y H1 _]; subst.
    cbn [snd benign] in H1. specialize (H1 _ dec_evil). cbn [m_contents] in H1.
    inversion H1 as [|x y [Hn _] _]; subst. discriminate Hn.
  Qed.
End RoundtripCex.

(* ================================================================== *)
(* discharging [codec_ok] with the codec round trip of Proofs/ManifestRT *)
(* ================================================================== *)
From DudV Require Proofs.ManifestRT.

Lemma okb_of_wf_text s : wf_text s -> ManifestRT.okb s = true.
Proof.
  intros [Hv Hb]. unfold ManifestRT.okb. rewrite Hv. cbn [andb].
  unfold wf_bytes. apply forallb_forall. intros x Hx. unfold bytes_ok in Hb.
  rewrite Forall_forall in Hb. unfold is_byte. apply N.ltb_lt. apply Hb. exact Hx.
Qed.

Lemma ssorted_of_sorted (l : list (bytes * artifact)) :
  StronglySorted man_key_lt l -> ManifestRT.ssorted l = true.
Proof.
  induction 1 as [|kv r Hr IH Hall]; [reflexivity|].
  cbn [ManifestRT.ssorted]. rewrite IH, andb_true_r.
  unfold ManifestRT.keys_gt. apply forallb_forall. intros e He.
  rewrite Forall_forall in Hall. apply (Hall _ He).
Qed.

Theorem codec_ok_holds : codec_ok.
Proof.
  intros m (Hp & Hs & Hall). apply ManifestRT.dec_enc_manifest.
  unfold ManifestRT.wf_manifest.
  rewrite (okb_of_wf_text _ Hp), (ssorted_of_sorted _ Hs). cbn [andb].
  unfold ManifestRT.wf_entries. apply forallb_forall. intros kv Hkv.
  rewrite Forall_forall in Hall. destruct (Hall _ Hkv) as (H1 & H2 & H3 & H4 & _).
  unfold ManifestRT.wf_entry.
  rewrite H1, beqb_refl, H2, (okb_of_wf_text _ H3), (okb_of_wf_text _ H4). reflexivity.
Qed.

Theorem roundtrip_benign_closed H :
  H_inj H -> H_has H -> H_text H -> forall a n c st st' n' c' a',
    plain n -> benign n -> kind_ok a n -> top_art a -> cache_inv H c ->
    commit_node H a n c st = Ok (n', c', a') ->
    exists fuel n2, checkout_node H fuel a' None c' st' = Ok (Some n2) /\
                    logical c' n2 = tracked_view a n.
Proof. intros Hinj Hhas Htext. exact (roundtrip_benign H Hinj Hhas Htext codec_ok_holds). Qed.

Theorem roundtrip_refuted_closed : ~ stmt_roundtrip RoundtripCex.Hb.
Proof. exact (RoundtripCex.roundtrip_refuted codec_ok_holds). Qed.

Print Assumptions copy_verified.
Print Assumptions checkout_file_frame.
Print Assumptions copy_tree_verified.
Print Assumptions C19_corrupt_fails.
Print Assumptions C19_success_no_corruption.
Print Assumptions checkout_frame.
Print Assumptions checkout_frame_strong.
Print Assumptions C06_obstructed_file.
Print Assumptions C06_obstructed_linkc.
Print Assumptions C06_obstructed_node.
Print Assumptions C06_obstructed_node_file.
Print Assumptions checkout_idem.
Print Assumptions roundtrip_benign.
Print Assumptions C06_obstructed.
Print Assumptions checkout_fuel_mono.
Print Assumptions RoundtripCex.roundtrip_counterexample.
Print Assumptions RoundtripCex.roundtrip_refuted.
Print Assumptions codec_ok_holds.
Print Assumptions roundtrip_benign_closed.
Print Assumptions roundtrip_refuted_closed.
