(* The index-line check (Model/Stage.v [index_line_ok], applied by System.step_checked to every
   line of .dud/index before the stage file it names is loaded): a line is accepted when, once
   cleaned, it is not absolute, is not ".." and does not start with "../".

   Shown here, over the model of path/filepath in Base/GoPath.v:
   - an accepted line, cleaned, has no ".." component at all (the invariant of the Clean state
     machine: for a relative path the output stack only ever has ".." components at the bottom,
     and a ".." at the bottom is never removed);
   - filepath.Join(root, line) for a Clean absolute root is root's components followed by the
     components of the cleaned line, so it lies lexically at or below the root
     ([index_line_under_root], [index_line_comps], [index_line_join_shape]);
   - absolute lines and lines that clean to ".." or "../..." are rejected ([index_line_rejects]);
   - [step_checked] does nothing on an index with a rejected line and is [step] otherwise.
   Unlike Stage.Validate (strings.Contains(p, "..")) the check is exact on components:
   "sub/../s.yaml", "..foo.yaml", "a/..b/c.yaml" are accepted. *)
From Coq Require Import String.
From Coq Require Import NArith Lia List Bool.
From DudV Require Import Base.Bytes Base.GoPath Model.Stage Model.System.
From DudV Require Import Proofs.Ownership Proofs.ContainProofs.
Import ListNotations.
Local Open Scope N_scope.

(* ================================================================================== *)
(* 0. The Clean state machine on a relative path                                       *)
(* ================================================================================== *)

(* a ".." at the bottom of the stack of a non-rooted run is never removed: it is the first
   component of the output *)
Lemma clean_comps_dd_bottom cs : forall st,
  exists t, clean_comps false cs (st ++ [[dot; dot]]) = [dot; dot] :: t.
Proof.
  induction cs as [|c cs IH]; intro st.
  - cbn [clean_comps]. rewrite rev_app_distr. cbn [rev app]. eexists. reflexivity.
  - cbn [clean_comps]. destruct (is_empty c || is_dot c); [apply IH|].
    destruct (is_dotdot c) eqn:Hc.
    + destruct st as [|top rest].
      * cbn [app]. change (is_dotdot [dot; dot]) with true. cbn iota. apply (IH [c]).
      * cbn [app]. destruct (is_dotdot top).
        -- apply (IH (c :: top :: rest)).
        -- apply IH.
    + apply (IH (c :: st)).
Qed.

(* the output does not begin with a ".." component *)
Definition no_dd_head (cs : list bytes) : Prop := forall t, cs <> [dot; dot] :: t.

(* A non-rooted run from a stack of ordinary components whose output does not begin with "..":
   it never pops below its starting stack, so (a) its output consists of ordinary components
   only, and (b) the same run on top of ANY base stack, rooted or not, leaves the base alone. *)
Lemma clean_comps_rel_inv (cs : list (list N)) : forall st : list (list N),
  Forall noslash cs -> Forall okc st -> no_dd_head (clean_comps false cs st) ->
  Forall okc (clean_comps false cs st) /\
  forall rooted base, clean_comps rooted cs (st ++ base) = rev base ++ clean_comps false cs st.
Proof.
  induction cs as [|c cs IH]; intros st Hn Hst Hh.
  - cbn [clean_comps]. split; [apply Forall_rev; exact Hst|].
    intros rooted base. apply rev_app_distr.
  - inversion Hn as [|? ? Hnc Hn']; subst.
    cbn [clean_comps] in Hh |- *.
    destruct (is_empty c || is_dot c) eqn:He.
    + destruct (IH st Hn' Hst Hh) as [Hok Hrun]. split; [exact Hok|].
      intros rooted base. apply Hrun.
    + destruct (is_dotdot c) eqn:Hd.
      * destruct st as [|top rest].
        -- exfalso. apply is_dotdot_eq in Hd. subst c.
           destruct (clean_comps_dd_bottom cs []) as [t Ht]. cbn [app] in Ht.
           exact (Hh t Ht).
        -- inversion Hst as [|? ? Htop Hrest]; subst.
           rewrite (okc_not_dotdot _ Htop) in Hh |- *.
           destruct (IH rest Hn' Hrest Hh) as [Hok Hrun]. split; [exact Hok|].
           intros rooted base. cbn [app]. rewrite (okc_not_dotdot _ Htop). apply Hrun.
      * assert (Hc : okc c).
        { apply keep_okc; [exact Hnc|exact Hd|]. unfold keep. rewrite He. reflexivity. }
        assert (Hst' : Forall okc (c :: st)) by (constructor; assumption).
        destruct (IH (c :: st) Hn' Hst' Hh) as [Hok Hrun]. split; [exact Hok|].
        intros rooted base. apply (Hrun rooted base).
Qed.

(* a prefix without ".." component is only filtered (rooted or not) *)
Lemma clean_comps_app_nodd rooted a : forall b st, Forall nodd a ->
  clean_comps rooted (a ++ b) st = clean_comps rooted b (rev (filter keep a) ++ st).
Proof.
  induction a as [|c a IH]; intros b st Hd; [reflexivity|].
  inversion Hd as [|? ? Hdc Hd']; subst. unfold nodd in Hdc.
  cbn [app clean_comps filter]. unfold keep at 1.
  destruct (is_empty c || is_dot c).
  - cbn [negb]. apply IH. exact Hd'.
  - cbn [negb]. rewrite Hdc. rewrite IH by exact Hd'.
    cbn [rev]. rewrite <- app_assoc. reflexivity.
Qed.

(* Clean of any string that starts with a slash *)
Lemma clean_abs_gen s :
  clean (slash :: s) = slash :: join_comps (clean_comps true (split s) []).
Proof.
  unfold clean.
  assert (Habs : is_abs (slash :: s) = true) by (cbn [is_abs]; apply N.eqb_refl).
  rewrite Habs. rewrite split_slash_cons. reflexivity.
Qed.

Lemma clean_abs_head s : is_abs s = true -> exists t, clean s = 47 :: t.
Proof.
  destruct s as [|c s]; [discriminate|]. intro Ha.
  unfold clean. rewrite Ha. eexists. reflexivity.
Qed.

(* joined components that begin with ".." spell ".." or "../..." *)
Lemma join_dd_head t :
  join_comps ([46; 46] :: t) = [46; 46] \/ exists u, join_comps ([46; 46] :: t) = 46 :: 46 :: 47 :: u.
Proof.
  destruct t as [|c t]; [left; reflexivity|].
  right. exists (join_comps (c :: t)). reflexivity.
Qed.

(* ================================================================================== *)
(* 1. What an accepted line looks like                                                 *)
(* ================================================================================== *)

Lemma index_line_ok_inv l : index_line_ok l = true ->
  l = [] \/ (l <> [] /\ is_abs l = false /\ no_dd_head (clean_comps false (split l) [])).
Proof.
  intro Hok. destruct l as [|y l]; [left; reflexivity|right].
  split; [discriminate|].
  unfold index_line_ok in Hok. apply andb_true_iff in Hok as [H1 H2].
  assert (Ha : is_abs (y :: l) = false).
  { destruct (is_abs (y :: l)) eqn:Ha; [|reflexivity].
    destruct (clean_abs_head _ Ha) as [t Ht]. rewrite Ht in H1. discriminate H1. }
  split; [exact Ha|].
  intros t Ht. rewrite clean_rel in H2 by (discriminate || exact Ha).
  rewrite Ht in H2. change [dot; dot] with [46; 46] in H2.
  destruct (join_dd_head t) as [E|[u E]]; rewrite E in H2; discriminate H2.
Qed.

(* the cleaned line: ordinary components only *)
Lemma index_line_clean_shape l : index_line_ok l = true ->
  Forall okc (comps (clean l)) /\ Forall nodd (split (clean l)) /\
  (l <> [] -> comps (clean l) = clean_comps false (split l) []).
Proof.
  intro Hok. destruct (index_line_ok_inv l Hok) as [->|(Hne & Ha & Hh)].
  - split; [constructor|]. split; [|intro Hc; contradiction].
    constructor; [reflexivity|constructor].
  - destruct (clean_comps_rel_inv (split l) [] (split_all_noslash l) (Forall_nil _) Hh)
      as [Hres _].
    destruct (split_join_any _ Hres) as [Hk Hd].
    rewrite clean_rel by assumption.
    destruct (join_comps (clean_comps false (split l) [])) as [|n o] eqn:Ej.
    + change (filter keep (split [])) with (@nil bytes) in Hk.
      rewrite <- Hk. split; [constructor|]. split; [|intros _; reflexivity].
      constructor; [reflexivity|constructor].
    + rewrite comps_unfold, Hk. split; [exact Hres|]. split; [exact Hd|intros _; reflexivity].
Qed.

(* the key fact about Clean asked for: a cleaned relative path that does not start with ".."
   has no ".." component at all *)
Theorem index_line_clean_nodd l : index_line_ok l = true -> Forall nodd (split (clean l)).
Proof. intro Hok. apply (index_line_clean_shape l Hok). Qed.

(* ================================================================================== *)
(* 2. Join(root, line) stays under the root                                            *)
(* ================================================================================== *)

(* filepath.Join(root, l) for a Clean absolute root and an accepted line: the root's components
   followed by the components of the cleaned line -- again a Clean absolute path *)
Theorem index_line_join_shape root rcs l :
  Forall okc rcs -> root = 47 :: join_comps rcs -> index_line_ok l = true ->
  join2 root l = 47 :: join_comps (rcs ++ comps (clean l)) /\
  Forall okc (rcs ++ comps (clean l)).
Proof.
  intros Hf -> Hok.
  destruct (index_line_clean_shape l Hok) as (Hcok & _ & Hceq).
  split; [|apply Forall_app; split; assumption].
  destruct (index_line_ok_inv l Hok) as [->|(Hne & Ha & Hh)].
  - cbn [join2]. fold slash. fold (abs_of rcs). rewrite clean_abs_of by exact Hf.
    change (comps (clean [])) with (@nil bytes). rewrite app_nil_r. reflexivity.
  - rewrite (Hceq Hne).
    destruct (clean_comps_rel_inv (split l) [] (split_all_noslash l) (Forall_nil _) Hh)
      as [_ Hrun].
    destruct (split_join_any rcs Hf) as [Hk Hdr].
    destruct l as [|y l]; [contradiction|].
    cbn [join2 app]. fold slash. rewrite clean_abs_gen.
    rewrite split_app_slash, clean_comps_app_nodd by exact Hdr.
    rewrite Hk, app_nil_r.
    pose proof (Hrun true (rev rcs)) as Hr. cbn [app] in Hr.
    rewrite Hr, rev_involutive. reflexivity.
Qed.

Theorem index_line_comps root rcs l :
  Forall okc rcs -> root = 47 :: join_comps rcs -> index_line_ok l = true ->
  comps (join2 root l) = comps root ++ comps (clean l).
Proof.
  intros Hf Hr Hok. destruct (index_line_join_shape root rcs l Hf Hr Hok) as [Hj Hall].
  rewrite Hj. fold slash. fold (abs_of (rcs ++ comps (clean l))).
  rewrite comps_abs_of by exact Hall.
  rewrite Hr. fold slash. fold (abs_of rcs). rewrite comps_abs_of by exact Hf. reflexivity.
Qed.

(* Theorem 1 *)
Theorem index_line_under_root root rcs l :
  Forall okc rcs -> root = 47 :: join_comps rcs -> index_line_ok l = true ->
  under root (join2 root l) = true.
Proof.
  intros Hf Hr Hok. unfold under.
  rewrite (index_line_comps root rcs l Hf Hr Hok). apply is_prefix_app.
Qed.

(* Theorem 1, all parts together *)
Theorem index_line_under_root_strong root rcs l :
  Forall okc rcs -> root = 47 :: join_comps rcs -> index_line_ok l = true ->
  under root (join2 root l) = true /\
  comps (join2 root l) = comps root ++ comps (clean l) /\
  Forall nodd (split (clean l)).
Proof.
  intros Hf Hr Hok. split; [|split].
  - apply (index_line_under_root root rcs l Hf Hr Hok).
  - apply (index_line_comps root rcs l Hf Hr Hok).
  - apply (index_line_clean_nodd l Hok).
Qed.

(* joining the line or the cleaned line is the same; so the existing containment theorem for
   paths without ".." component applies to the cleaned line *)
Corollary index_line_join_clean root rcs l :
  Forall okc rcs -> root = 47 :: join_comps rcs -> index_line_ok l = true ->
  join2 root l = join2 root (clean l).
Proof.
  intros Hf Hr Hok. destruct (index_line_join_shape root rcs l Hf Hr Hok) as [Hj _].
  rewrite Hj, Hr. fold slash. fold (abs_of rcs). fold (abs_of (rcs ++ comps (clean l))).
  symmetry. apply join2_abs_nodd; [exact Hf|apply index_line_clean_nodd; exact Hok].
Qed.

(* every line of an accepted index *)
Corollary index_lines_under_root root rcs ls :
  Forall okc rcs -> root = 47 :: join_comps rcs -> forallb index_line_ok ls = true ->
  forall l, In l ls -> under root (join2 root l) = true.
Proof.
  intros Hf Hr Hall l Hin. rewrite forallb_forall in Hall.
  apply (index_line_under_root root rcs l Hf Hr (Hall l Hin)).
Qed.

Print Assumptions index_line_clean_nodd.
Print Assumptions index_line_join_shape.
Print Assumptions index_line_comps.
Print Assumptions index_line_under_root.
Print Assumptions index_line_under_root_strong.
Print Assumptions index_line_join_clean.
Print Assumptions index_lines_under_root.

(* ================================================================================== *)
(* 3. What is rejected                                                                 *)
(* ================================================================================== *)

Theorem index_line_rejects_abs l : is_abs l = true -> index_line_ok l = false.
Proof.
  intro Ha. destruct (clean_abs_head l Ha) as [t Ht].
  unfold index_line_ok. rewrite Ht. reflexivity.
Qed.

Theorem index_line_rejects_dotdot l : clean l = [46; 46] -> index_line_ok l = false.
Proof. intro Hc. unfold index_line_ok. rewrite Hc. reflexivity. Qed.

Theorem index_line_rejects_up l t : clean l = 46 :: 46 :: 47 :: t -> index_line_ok l = false.
Proof. intro Hc. unfold index_line_ok. rewrite Hc. reflexivity. Qed.

(* Theorem 2 *)
Theorem index_line_rejects l :
  (is_abs l = true -> index_line_ok l = false) /\
  (clean l = [46; 46] \/ (exists t, clean l = 46 :: 46 :: 47 :: t) -> index_line_ok l = false).
Proof.
  split; [apply index_line_rejects_abs|].
  intros [Hc|[t Hc]]; [apply index_line_rejects_dotdot; exact Hc|].
  apply (index_line_rejects_up l t Hc).
Qed.

Print Assumptions index_line_rejects.

(* ---- the check is exact: nothing else is rejected ---- *)

(* every component a Clean run emits is non-empty and slash-free *)
Definition solid (c : bytes) : Prop := noslash c /\ c <> [].

Lemma clean_comps_solid rooted (cs : list (list N)) : forall st : list (list N),
  Forall noslash cs -> Forall solid st -> Forall solid (clean_comps rooted cs st).
Proof.
  induction cs as [|c cs IH]; intros st Hn Hst.
  - cbn [clean_comps]. apply Forall_rev. exact Hst.
  - inversion Hn as [|? ? Hnc Hn']; subst. cbn [clean_comps].
    destruct (is_empty c || is_dot c) eqn:He; [apply IH; assumption|].
    assert (Hc : solid c).
    { split; [exact Hnc|]. intro E. subst c. discriminate He. }
    destruct (is_dotdot c).
    + destruct st as [|top rest].
      * destruct rooted; apply IH; try assumption; constructor; [exact Hc|constructor].
      * inversion Hst as [|? ? Htop Hrest]; subst.
        destruct (is_dotdot top); apply IH; try assumption. constructor; assumption.
    + apply IH; [exact Hn'|]. constructor; assumption.
Qed.

Lemma join_solid_not_abs cs : Forall solid cs -> is_abs (join_comps cs) = false.
Proof.
  intro Hf. destruct cs as [|c cs]; [reflexivity|].
  inversion Hf as [|? ? [Hn Hne] _]; subst.
  destruct c as [|x c]; [contradiction|].
  assert (Hx : (x =? slash) = false) by (apply (eqb_slash_false x c); exact Hn).
  destruct cs as [|d cs]; cbn [join_comps app is_abs]; exact Hx.
Qed.

(* Clean of a relative path is relative *)
Theorem clean_rel_not_abs l : is_abs l = false -> is_abs (clean l) = false.
Proof.
  intro Ha. destruct l as [|y l]; [reflexivity|].
  rewrite clean_rel by (discriminate || exact Ha).
  pose proof (join_solid_not_abs _
    (clean_comps_solid false (split (y :: l)) [] (split_all_noslash _) (Forall_nil _))) as Hj.
  destruct (join_comps (clean_comps false (split (y :: l)) [])); [reflexivity|exact Hj].
Qed.

(* the pattern match of [index_line_ok] spelled with byte comparisons *)
Definition starts_up (c : bytes) : bool :=
  match c with
  | [a; b] => (a =? 46) && (b =? 46)
  | a :: b :: d :: _ => (a =? 46) && (b =? 46) && (d =? 47)
  | _ => false
  end.

Ltac brute_byte x :=
  destruct x as [|x]; [reflexivity|]; do 6 (destruct x as [x|x|]; try reflexivity).

Lemma index_line_ok_unfold l :
  index_line_ok l = negb (is_abs (clean l)) && negb (starts_up (clean l)).
Proof.
  unfold index_line_ok. f_equal. f_equal.
  destruct (clean l) as [|a [|b [|d t]]]; try reflexivity.
  - brute_byte a.
  - brute_byte a; try brute_byte b.
  - brute_byte a; try brute_byte b; try brute_byte d.
Qed.

Lemma starts_up_true c :
  starts_up c = true <-> c = [46; 46] \/ exists t, c = 46 :: 46 :: 47 :: t.
Proof.
  split.
  - destruct c as [|a [|b [|d t]]]; cbn [starts_up]; try discriminate; intro Hs.
    + apply andb_true_iff in Hs as [H1 H2]. apply N.eqb_eq in H1, H2. subst. left. reflexivity.
    + apply andb_true_iff in Hs as [Hs H3]. apply andb_true_iff in Hs as [H1 H2].
      apply N.eqb_eq in H1, H2, H3. subst. right. exists t. reflexivity.
  - intros [->|[t ->]]; reflexivity.
Qed.

Theorem index_line_ok_false_iff l :
  index_line_ok l = false <->
  is_abs l = true \/ clean l = [46; 46] \/ exists t, clean l = 46 :: 46 :: 47 :: t.
Proof.
  split.
  - intro Hno. destruct (is_abs l) eqn:Ha; [left; reflexivity|right].
    rewrite index_line_ok_unfold, (clean_rel_not_abs l Ha) in Hno.
    cbn [negb andb] in Hno. apply negb_false_iff in Hno.
    apply starts_up_true. exact Hno.
  - intros [Ha|[Hc|[t Hc]]].
    + apply index_line_rejects_abs. exact Ha.
    + apply index_line_rejects_dotdot. exact Hc.
    + apply (index_line_rejects_up l t Hc).
Qed.

Print Assumptions clean_rel_not_abs.
Print Assumptions index_line_ok_false_iff.

(* ---- concrete lines (Go: the same strings through filepath.Clean) ---- *)

Example ex_idx_reject_up : index_line_ok (bs "../outside/s.yaml") = false.
Proof. vm_compute. reflexivity. Qed.
Example ex_idx_reject_abs : index_line_ok (bs "/abs/s.yaml") = false.
Proof. vm_compute. reflexivity. Qed.
Example ex_idx_reject_inner : index_line_ok (bs "sub/../../x.yaml") = false.
Proof. vm_compute. reflexivity. Qed.
Example ex_idx_reject_dotdot : index_line_ok (bs "..") = false.
Proof. vm_compute. reflexivity. Qed.
Example ex_idx_reject_dot_up : index_line_ok (bs "./../x.yaml") = false.
Proof. vm_compute. reflexivity. Qed.
Example ex_idx_reject_trailing_up : index_line_ok (bs "a/../..") = false.
Proof. vm_compute. reflexivity. Qed.
Example ex_idx_reject_slashes : index_line_ok (bs "//s.yaml") = false.
Proof. vm_compute. reflexivity. Qed.

Example ex_idx_accept_plain : index_line_ok (bs "s.yaml") = true.
Proof. vm_compute. reflexivity. Qed.
Example ex_idx_accept_inner_up : index_line_ok (bs "sub/../s.yaml") = true.
Proof. vm_compute. reflexivity. Qed.
Example ex_idx_accept_sub : index_line_ok (bs "st/d.yaml") = true.
Proof. vm_compute. reflexivity. Qed.
Example ex_idx_accept_dotdotfoo : index_line_ok (bs "..foo.yaml") = true.
Proof. vm_compute. reflexivity. Qed.
Example ex_idx_accept_a_dotdotb : index_line_ok (bs "a/..b/c.yaml") = true.
Proof. vm_compute. reflexivity. Qed.
Example ex_idx_accept_empty : index_line_ok [] = true.
Proof. vm_compute. reflexivity. Qed.
Example ex_idx_accept_back_to_root : index_line_ok (bs "a/..") = true.
Proof. vm_compute. reflexivity. Qed.

(* the same with explicit byte lists: "../x" and "s" *)
Example ex_idx_reject_bytes : index_line_ok [46; 46; 47; 120] = false.
Proof. vm_compute. reflexivity. Qed.
Example ex_idx_accept_bytes : index_line_ok [115] = true.
Proof. vm_compute. reflexivity. Qed.

(* where the lines land (Go: filepath.Join("/r/proj", line)) *)
Example ex_idx_join_inner_up :
  join2 (bs "/r/proj") (bs "sub/../s.yaml") = bs "/r/proj/s.yaml".
Proof. vm_compute. reflexivity. Qed.
Example ex_idx_join_a_dotdotb :
  join2 (bs "/r/proj") (bs "a/..b/c.yaml") = bs "/r/proj/a/..b/c.yaml".
Proof. vm_compute. reflexivity. Qed.
Example ex_idx_escape_up :
  under (bs "/r/proj") (join2 (bs "/r/proj") (bs "../outside/s.yaml")) = false.
Proof. vm_compute. reflexivity. Qed.
Example ex_idx_escape_inner :
  under (bs "/r/proj") (join2 (bs "/r/proj") (bs "sub/../../x.yaml")) = false.
Proof. vm_compute. reflexivity. Qed.
(* an absolute line is rejected although Join would keep it inside ("/r/proj/abs/s.yaml"):
   the Go code opens the line as written, not joined *)
Example ex_idx_abs_would_join_inside :
  under (bs "/r/proj") (join2 (bs "/r/proj") (bs "/abs/s.yaml")) = true.
Proof. vm_compute. reflexivity. Qed.

(* the theorem on a concrete root *)
Example ex_idx_root_proj : forall l, index_line_ok l = true ->
  under (bs "/r/proj") (join2 (bs "/r/proj") l) = true /\
  comps (join2 (bs "/r/proj") l) = [bs "r"; bs "proj"] ++ comps (clean l).
Proof.
  intros l Hok.
  assert (Hf : Forall okc [bs "r"; bs "proj"]) by (apply forallb_okcb; vm_compute; reflexivity).
  split.
  - apply (index_line_under_root _ [bs "r"; bs "proj"] l Hf eq_refl Hok).
  - apply (index_line_comps _ [bs "r"; bs "proj"] l Hf eq_refl Hok).
Qed.

Print Assumptions ex_idx_root_proj.

(* ================================================================================== *)
(* 4. The whole command                                                                *)
(* ================================================================================== *)

(* Theorem 3: an index with a rejected line: nothing is done, the command fails *)
Theorem step_checked_hostile_index Hh sems w cmd :
  forallb index_line_ok (w_index w) = false ->
  step_checked Hh sems w cmd = (w, false, ONone).
Proof. intro Hbad. unfold step_checked. rewrite Hbad. reflexivity. Qed.

Theorem step_checked_ok Hh sems w cmd :
  forallb index_line_ok (w_index w) = true ->
  step_checked Hh sems w cmd = step Hh sems w cmd.
Proof. intro Hall. unfold step_checked. rewrite Hall. reflexivity. Qed.

(* one hostile line anywhere is enough *)
Corollary step_checked_hostile_line Hh sems w cmd l :
  In l (w_index w) ->
  (is_abs l = true \/ clean l = [46; 46] \/ exists t, clean l = 46 :: 46 :: 47 :: t) ->
  step_checked Hh sems w cmd = (w, false, ONone).
Proof.
  intros Hin Hbad. apply step_checked_hostile_index.
  destruct (forallb index_line_ok (w_index w)) eqn:Hall; [exfalso|reflexivity].
  rewrite forallb_forall in Hall. specialize (Hall l Hin).
  apply index_line_ok_false_iff in Hbad. rewrite Hbad in Hall. discriminate Hall.
Qed.

(* whenever the command gets to run, every stage file it will load is under the root *)
Corollary step_checked_runs_inside Hh sems w cmd root rcs :
  Forall okc rcs -> root = 47 :: join_comps rcs ->
  step_checked Hh sems w cmd <> (w, false, ONone) ->
  forall l, In l (w_index w) -> under root (join2 root l) = true.
Proof.
  intros Hf Hr Hrun. destruct (forallb index_line_ok (w_index w)) eqn:Hall.
  - apply (index_lines_under_root root rcs _ Hf Hr Hall).
  - exfalso. apply Hrun. apply step_checked_hostile_index. exact Hall.
Qed.

Print Assumptions step_checked_hostile_index.
Print Assumptions step_checked_ok.
Print Assumptions step_checked_hostile_line.
Print Assumptions step_checked_runs_inside.
