(* Side conditions the theorems need about constants and flags of the CURRENT source: compiled on
   every run against the SourceFacts.v that `dudh facts` regenerates from /repo with go/ast. *)
From Coq Require Import NArith List String Lia.
From Gen Require Import SourceFacts.
From DudV Require Import Model.Cache.
Import ListNotations.
Local Open Scope N_scope.

Lemma fatal_unlocks_ok : fatal_unlocks = true /\ main_unlocks = true /\ unlock_removes_locked_path = true.
Proof. repeat split; reflexivity. Qed.
