(* Side conditions the theorems need about constants and flags of the CURRENT source: compiled on
   every run against the SourceFacts.v that `dudh facts` regenerates from /repo with go/ast. *)
From Coq Require Import NArith List String Lia.
From Gen Require Import SourceFacts.
From DudV Require Import Model.Cache.
Import ListNotations.
Local Open Scope N_scope.

Lemma at_least_one_dedicated_worker : 1 <= maxDedicatedWorkers.
Proof. unfold maxDedicatedWorkers. lia. Qed.
