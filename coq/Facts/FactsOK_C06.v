(* Side conditions the theorems need about constants and flags of the CURRENT source: compiled on
   every run against the SourceFacts.v that `dudh facts` regenerates from /repo with go/ast. *)
From Coq Require Import NArith List String Lia.
From Gen Require Import SourceFacts.
From DudV Require Import Model.Cache.
Import ListNotations.
Local Open Scope N_scope.

Lemma copy_target_opened_exclusively :
  In "O_EXCL"%string copy_checkout_open_flags /\ In "O_CREATE"%string copy_checkout_open_flags /\
  ~ In "O_TRUNC"%string copy_checkout_open_flags /\ ~ In "O_APPEND"%string copy_checkout_open_flags.
Proof. unfold copy_checkout_open_flags. repeat split; simpl; try tauto; intros H; repeat (destruct H as [H|H]; [discriminate H|]); exact H. Qed.
