(* Side conditions the theorems need about constants and flags of the CURRENT source: compiled on
   every run against the SourceFacts.v that `dudh facts` regenerates from /repo with go/ast. *)
From Coq Require Import NArith List String Lia.
From Gen Require Import SourceFacts.
From DudV Require Import Model.Cache.
Import ListNotations.
Local Open Scope N_scope.

Lemma same_contents_buffer_positive : 1 <= sameContentsBuffer.
Proof. unfold sameContentsBuffer. lia. Qed.
