(* Side conditions the theorems need about constants and flags of the CURRENT source: compiled on
   every run against the SourceFacts.v that `dudh facts` regenerates from /repo with go/ast. *)
From Coq Require Import NArith List String Lia.
From Gen Require Import SourceFacts.
From DudV Require Import Model.Cache.
Import ListNotations.
Local Open Scope N_scope.

Lemma stage_files_replaced_atomically : stage_tofile_atomic = true /\ index_tofile_atomic = true.
Proof. split; reflexivity. Qed.
Lemma object_renamed_then_chmodded : commit_bytes_renames_then_chmods = true.
Proof. reflexivity. Qed.
