(* Side conditions the theorems need about constants and flags of the CURRENT source: compiled on
   every run against the SourceFacts.v that `dudh facts` regenerates from /repo with go/ast. *)
From Coq Require Import NArith List String Lia.
From Gen Require Import SourceFacts.
From DudV Require Import Model.Cache.
Import ListNotations.
Local Open Scope N_scope.

Lemma lock_is_exclusive : In "O_EXCL"%string lock_open_flags /\ In "O_CREATE"%string lock_open_flags.
Proof. unfold lock_open_flags. simpl; tauto. Qed.
Lemma release_paths : fatal_unlocks = true /\ main_unlocks = true /\ unlock_removes_locked_path = true.
Proof. repeat split; reflexivity. Qed.
(* the descriptor table of Model/Lock.v: prepare-based commands chdir before locking; config locks
   without chdir; pull unlocks between fetch and checkout *)
Lemma descriptor_table :
  cmd_files_calling_prepare = ["checkout"; "commit"; "fetch"; "graph"; "push"; "run"; "stage"; "status"]%string /\
  cmd_files_calling_lockProject = ["config"]%string /\ pull_unlocks_between = true /\
  prepare_chdirs_before_lock = true.
Proof. repeat split; reflexivity. Qed.
