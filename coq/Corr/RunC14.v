(* Correspondence runner for C14: the implementation's observed (script, result) pairs are
   compared with the model instantiated by the accumulate-then-BLAKE3 hasher, and the
   executable statement of the property is evaluated on the implementation's result. *)
From Coq Require Import NArith List Bool.
From DudV Require Import Base.Bytes Base.Blake3 Model.Stream Proofs.StreamProofs.
Import ListNotations.
Local Open Scope N_scope.

(* observed result: Some digest | None = error returned *)
Record case14 := { c_id : N; c_pool : bytes; c_evs : list event; c_res : option bytes;
                   c_data : bytes (* the bytes the harness fed, independent of the script log *) }.

Definition model14 (c : case14) : option (option bytes) :=
  match checksum bytes acc_reset acc_write blake3 (c_pool c) (c_evs c) with
  | Some (_, r) => Some r | None => None end.

Definition opt_beq (a b : option bytes) : bool :=
  match a, b with Some x, Some y => beqb x y | None, None => true | _, _ => false end.

(* 1 = model/implementation mismatch, 2 = property fails on the implementation, 3 = both *)
Definition verdict14 (c : case14) : N :=
  let corr := match model14 c with Some r => opt_beq r (c_res c) | None => false end in
  let spec := if eof_script (c_evs c)
              then beqb (data_of (c_evs c)) (c_data c) &&
                   opt_beq (c_res c) (Some (hexdigest (c_data c)))
              else if fail_script (c_evs c) then opt_beq (c_res c) None else true in
  (if corr then 0 else 1) + (if spec then 0 else 2).

Definition run14 (cs : list case14) : list (N * N) :=
  filter (fun p => negb (snd p =? 0)) (map (fun c => (c_id c, verdict14 c)) cs).

Definition ev (c : bytes) (e : N) : event :=
  (c, if e =? 0 then RNone else if e =? 1 then REOF else RFail).
