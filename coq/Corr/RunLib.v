(* Correspondence runners for the library-level families: ownership (C10), stage files (C17). *)
From Coq Require Import NArith List Bool.
From DudV Require Import Base.Bytes Base.Blake3 Base.Json Base.GoPath Model.Fs Model.Cache Model.Stage Model.Index Corr.RunSys.
Import ListNotations.
Local Open Scope N_scope.

(* ---------- C10 ---------- *)
(* reference overlap relation on component lists, independent of find_dir_owner *)
Fixpoint proper_prefix (q p : list bytes) : bool :=
  match q, p with
  | [], _ :: _ => true
  | x :: q', y :: p' => beqb x y && proper_prefix q' p'
  | _, _ => false
  end.
(* q owns p: q is a proper ancestor of p and (q is recursive or q is the immediate parent) *)
Definition inside (p q : artifact) : bool :=
  let cp := comps (a_path p) in let cq := comps (a_path q) in
  proper_prefix cq cp && (negb (a_norec q) || Nat.eqb (length cq + 1)%nat (length cp)).
Definition overlap (p q : artifact) : bool :=
  beqb (a_path p) (a_path q) || inside p q || inside q p.

Record own_case := mkOwn {
  oc_id : N;
  oc_ops : list (bytes * stage);      (* AddStage calls in order *)
  oc_acc : list bool;                 (* accepted? as observed *)
  oc_reload : bool;                   (* the written index loaded again *)
  oc_loadall : bool;                  (* an index listing ALL the stages (as a user editing stage files
                                         after `dud stage add` leaves them) is accepted by index.FromFile *)
  oc_owner : list (bytes * option bytes) }.  (* findOwner probes on the final index: path -> owning stage *)

Fixpoint model_adds (idx : index) (ops : list (bytes * stage)) : list bool * index :=
  match ops with
  | [] => ([], idx)
  | (p, s) :: r =>
    match (if validate p s then add_stage idx p s else None) with
    | Some idx' => let '(l, i) := model_adds idx' r in (true :: l, i)
    | None => let '(l, i) := model_adds idx r in (false :: l, i)
    end
  end.

Fixpoint pairwise_nonoverlap (l : list artifact) : bool :=
  match l with
  | [] => true
  | a :: r => forallb (fun b => negb (overlap a b)) r && pairwise_nonoverlap r
  end.

Fixpoint ref_adds (acc : list artifact) (ops : list (bytes * stage)) (seen : list bytes) : list bool :=
  match ops with
  | [] => []
  | (p, s) :: r =>
    let ok := negb (mem p seen) && pairwise_nonoverlap (s_outputs s) &&
              forallb (fun o => forallb (fun o' => negb (overlap o o')) acc) (s_outputs s) in
    ok :: ref_adds (if ok then s_outputs s ++ acc else acc) r (if ok then p :: seen else seen)
  end.

Definition verdict_own (c : own_case) : N :=
  let '(macc, idx) := model_adds [] (oc_ops c) in
  let mreload := match load_index (map fst idx) (map (fun e => (fst e, Some (snd e))) idx) [] with
                 | Some _ => true | None => false end in
  let mown := forallb (fun pr => match find_owner idx (fst pr), snd pr with
                                 | Some (sp, _), Some sp' => beqb sp sp'
                                 | None, None => true
                                 | _, _ => false end) (oc_owner c) in
  let mloadall := match load_index (map fst (oc_ops c)) (map (fun e => (fst e, Some (snd e))) (oc_ops c)) [] with
                  | Some _ => true | None => false end in
  let corr := list_eqb Bool.eqb macc (oc_acc c) && Bool.eqb mreload (oc_reload c) && mown &&
              Bool.eqb mloadall (oc_loadall c) in
  (* the property on the implementation: accepted exactly when no overlap exists; an index
     written after successful adds loads again *)
  let spec := list_eqb Bool.eqb (ref_adds [] (oc_ops c) []) (oc_acc c) && oc_reload c &&
              (* however the index file came about, it is loaded only if no output lies inside another *)
              Bool.eqb (oc_loadall c) (forallb (fun b => b) (ref_adds [] (oc_ops c) [])) in
  (if corr then 0 else 1) + (if spec then 0 else 2).

Definition run_own (cs : list own_case) : list (N * N) :=
  filter (fun p => negb (snd p =? 0)) (map (fun c => (oc_id c, verdict_own c)) cs).

(* Validate on multi-artifact stages *)
Record val_case := mkVal { vc_id : N; vc_path : bytes; vc_stage : stage; vc_ok : bool }.

Definition ref_validate (p : bytes) (s : stage) : bool :=
  negb (contains_dotdot (s_wd s)) && negb (is_abs (s_wd s)) &&
  negb (match s_inputs s, s_outputs s with [], [] => true | _, _ => false end) &&
  negb (match s_outputs s, s_cmd s with [], [] => true | _, _ => false end) &&
  forallb (fun a => negb (beqb (a_path a) p) && negb (contains_dotdot (a_path a)) && negb (is_abs (a_path a)))
          (s_outputs s ++ s_inputs s) &&
  pairwise_nonoverlap (s_outputs s ++ s_inputs s).

Definition verdict_val (c : val_case) : N :=
  (if Bool.eqb (validate (vc_path c) (vc_stage c)) (vc_ok c) then 0 else 1) +
  (if Bool.eqb (ref_validate (vc_path c) (vc_stage c)) (vc_ok c) then 0 else 2).
Definition run_val (cs : list val_case) : list (N * N) :=
  filter (fun p => negb (snd p =? 0)) (map (fun c => (vc_id c, verdict_val c)) cs).

(* ---------- C17 ---------- *)
From DudV Require Import Model.StageFile.

Record sf_case := mkSF {
  sf_id : N;
  sf_path : bytes;                 (* stage file path (relative), for the self-reference test *)
  sf_written : ystage;             (* the value handed to the YAML encoder *)
  sf_loaded : option stage;        (* what stage.FromFile returned for the written file *)
  sf_reloaded : option stage;      (* loaded stage written again with ToFile and loaded again *)
  sf_cs : bytes;                   (* CalculateChecksum of the loaded stage *)
  sf_cs_same : bytes;              (* ... after changing artifact checksums and the stage checksum *)
  sf_cs_diff : list bytes }.       (* ... after changing one definition field at a time *)

Definition verdict_sf (c : sf_case) : N :=
  let m := from_file (sf_written c) in
  let mval := validate (sf_path c) m in
  let corr :=
    match sf_loaded c with
    | Some s => mval && stage_eqb m s && beqb (def_checksum hexdigest s) (sf_cs c)
    | None => negb mval
    end in
  let spec :=
    match sf_loaded c with
    | Some s =>
      nf_stage s &&
      match sf_reloaded c with Some s2 => stage_eqb s s2 | None => false end &&
      beqb (sf_cs_same c) (sf_cs c) &&
      forallb (fun d => negb (beqb d (sf_cs c))) (sf_cs_diff c)
    | None => negb mval      (* a valid stage that was written must load again *)
    end in
  (if corr then 0 else 1) + (if spec then 0 else 2).
Definition run_sf (cs : list sf_case) : list (N * N) :=
  filter (fun p => negb (snd p =? 0)) (map (fun c => (sf_id c, verdict_sf c)) cs).

(* ---------- C05: fsutil.SameContents ---------- *)
From DudV Require Import Proofs.SameContents.

Record same_case := mkSame {
  sm_id : N;
  sm_la : N; sm_lb : N;                (* lengths *)
  sm_diff : bool;                      (* the harness wrote a differing byte inside the common prefix *)
  sm_small : option (bytes * bytes);   (* the contents, when small enough to run the model *)
  sm_res : option bool }.              (* observed result (None = error) *)

Definition verdict_same (c : same_case) : N :=
  (* the right-hand side of the theorem same_contents_correct: plain equality *)
  let expected := (sm_la c =? sm_lb c) && negb (sm_diff c) in
  let spec := match sm_res c with Some r => Bool.eqb r expected | None => false end in
  let corr := match sm_small c, sm_res c with
              | Some (a, b), Some r =>
                Bool.eqb (same_contents 4 a b) r && Bool.eqb (same_contents 64 a b) r &&
                Bool.eqb (beqb a b) expected
              | _, _ => true
              end in
  (if corr then 0 else 1) + (if spec then 0 else 2).
Definition run_same (cs : list same_case) : list (N * N) :=
  filter (fun p => negb (snd p =? 0)) (map (fun c => (sm_id c, verdict_same c)) cs).
