(* Correspondence runner for C12: one dud invocation = one process of Model/Lock.v driven to
   quiescence by a deterministic scheduler; N concurrent invocations = observed counters. *)
From Coq Require Import NArith List Bool Arith.
From DudV Require Import Model.Lock.
Import ListNotations.

Record lcase := mkL {
  l_id : N;
  l_desc : N;          (* 0 prepare-based, 1 config get/set, 2 pull, 3 never locks *)
  l_cwd_root : bool;
  l_fails : bool;      (* the command's own body fails (observed: non-zero exit without a foreign lock) *)
  l_prelocked : bool;  (* .dud/lock existed before the invocation *)
  l_ok : bool;         (* observed: exit status 0 *)
  l_lock_after : bool  (* observed: .dud/lock exists after the process exited *) }.

Definition desc_of (n : N) : desc :=
  match n with
  | 0%N => prepare_desc | 1%N => config_desc | 2%N => pull_desc | _ => nolock_desc
  end.

Definition try_labels (fails : bool) : list label :=
  [LResolve; LAcquireOk; LAcquireRefused; (if fails then LBodyFail else LBodyOk); LBodyOk; LUnlock; LRelock; LExit].

Fixpoint first_step (k : release_kind) (ls : list label) (g : global) : option global :=
  match ls with
  | [] => None
  | l :: r => match step_proc k l g 0 with Some g' => Some g' | None => first_step k r g end
  end.

Fixpoint drive (fuel : nat) (k : release_kind) (fails : bool) (g : global) : global :=
  match fuel with
  | O => g
  | S f => match first_step k (try_labels fails) g with
           | Some g' => drive f k fails g'
           | None => g
           end
  end.

Definition model_lock (c : lcase) : option (bool * bool) :=
  let g0 := mkGlobal (l_prelocked c) None [start_proc (desc_of (l_desc c), l_cwd_root c)] in
  let g := drive 40 ReleaseSamePath (l_fails c) g0 in
  match procs g with
  | [p] => match exit_code p with
           | Some code => Some (Nat.eqb code 0, lockfile g)
           | None => None
           end
  | _ => None
  end.

Definition verdict_lock (c : lcase) : N :=
  let corr := match model_lock c with
              | Some (ok, lk) => Bool.eqb ok (l_ok c) && Bool.eqb lk (l_lock_after c)
              | None => false
              end in
  (* the property on the implementation: a command that exits on its own leaves the project
     unlocked; a refused command exits non-zero and does not remove the holder's lock *)
  let spec := if l_prelocked c
              then (if (l_desc c =? 3)%N then l_lock_after c
                    else negb (l_ok c) && l_lock_after c)
              else negb (l_lock_after c) in
  ((if corr then 0 else 1) + (if spec then 0 else 2))%N.

Definition run_lock (cs : list lcase) : list (N * N) :=
  filter (fun p => negb (snd p =? 0)%N) (map (fun c => (l_id c, verdict_lock c)) cs).

(* N processes released from a barrier *)
Record ccase := mkC {
  c_id : N; c_n : N; c_ok : N; c_refused : N; c_other : N; c_violations : N; c_lock_after : bool;
  c_unchanged_by_refused : bool }.
Definition verdict_conc (c : ccase) : N :=
  let spec := (c_violations c =? 0)%N && negb (c_lock_after c) &&
              (c_ok c + c_refused c + c_other c =? c_n c)%N && (c_other c =? 0)%N &&
              (1 <=? c_ok c)%N && c_unchanged_by_refused c in
  (if spec then 0 else 2)%N.
Definition run_conc (cs : list ccase) : list (N * N) :=
  filter (fun p => negb (snd p =? 0)%N) (map (fun c => (c_id c, verdict_conc c)) cs).

(* System-call trace of ONE invocation running alone, projected to
     0 = .dud/lock created with O_EXCL, 1 = .dud/lock unlinked,
     2 = any other mutating call below the project, its cache or the remote
   (by the dud process, a stage command or rclone),
     3 = the dud process opens the index, a stage file or a cache object for READING (the state
   a command decides on is read under the lock too: trace_ok treats every event >= 2 as work).
   correspondence: the lock events are the Take/Drop effects of the model's process;
   property (on the implementation): every change happens while the lock is held, the lock is
   taken only when not held, released only when held, and not held at the end. *)
Record ltcase := mkLT {
  lt_id : N; lt_desc : N; lt_fails : bool; lt_ok : bool; lt_lock_after : bool; lt_trace : list N }.

Fixpoint drive_eff (fuel : nat) (k : release_kind) (fails : bool) (g : global) (acc : list N) : list N :=
  match fuel with
  | O => rev acc
  | S f => match first_step k (try_labels fails) g with
           | Some g' =>
               let acc' := if negb (lockfile g) && lockfile g' then 0%N :: acc
                           else if lockfile g && negb (lockfile g') then 1%N :: acc else acc in
               drive_eff f k fails g' acc'
           | None => rev acc
           end
  end.

Definition model_effects (d : N) (fails : bool) : list N :=
  drive_eff 40 ReleaseSamePath fails (mkGlobal false None [start_proc (desc_of d, true)]) [].

Fixpoint trace_ok (held : bool) (t : list N) : bool :=
  match t with
  | [] => negb held
  | e :: r =>
      if (e =? 0)%N then negb held && trace_ok true r
      else if (e =? 1)%N then held && trace_ok false r
      else held && trace_ok held r
  end.

Definition lock_events (t : list N) : list N := filter (fun e => (e <? 2)%N) t.

Fixpoint list_N_eqb (a b : list N) : bool :=
  match a, b with
  | [], [] => true
  | x :: a', y :: b' => (x =? y)%N && list_N_eqb a' b'
  | _, _ => false
  end.

Definition verdict_ltrace (c : ltcase) : N :=
  let corr := list_N_eqb (lock_events (lt_trace c)) (model_effects (lt_desc c) (lt_fails c))
              && Bool.eqb (lt_ok c) (negb (lt_fails c)) in
  let spec := trace_ok false (lt_trace c) && negb (lt_lock_after c) in
  ((if corr then 0 else 1) + (if spec then 0 else 2))%N.

Definition run_ltrace (cs : list ltcase) : list (N * N) :=
  filter (fun p => negb (snd p =? 0)%N) (map (fun c => (lt_id c, verdict_ltrace c)) cs).

(* sanity: what the model predicts *)
Example effects_prepare : model_effects 0 false = [0; 1]%N. Proof. reflexivity. Qed.
Example effects_pull : model_effects 2 false = [0; 1; 0; 1]%N. Proof. reflexivity. Qed.
Example effects_fail : model_effects 0 true = [0; 1]%N. Proof. reflexivity. Qed.
Example effects_nolock : model_effects 3 false = []. Proof. reflexivity. Qed.
Example trace_ok_pull : trace_ok false [0; 2; 1; 0; 2; 1]%N = true. Proof. reflexivity. Qed.
Example trace_bad_pull : trace_ok false [0; 2; 1; 2]%N = false. Proof. reflexivity. Qed.

(* The model's own trace of one process running alone, with a 2 for the work of the subcommand
   (a step taken from pc = Body): for EVERY descriptor, starting directory and outcome it
   satisfies trace_ok, i.e. the executable statement evaluated on the implementation's traces is
   what the model guarantees. *)
Fixpoint drive_trace (fuel : nat) (k : release_kind) (fails : bool) (g : global) (acc : list N) : list N :=
  match fuel with
  | O => rev acc
  | S f => match first_step k (try_labels fails) g with
           | Some g' =>
               let work := match procs g with
                           | [p] => match p_pc p with Body => true | _ => false end
                           | _ => false
                           end in
               let acc1 := if work && locks (match procs g with [p] => p_desc p | _ => nolock_desc end)
                           then 2%N :: acc else acc in
               let acc2 := if negb (lockfile g) && lockfile g' then 0%N :: acc1
                           else if lockfile g && negb (lockfile g') then 1%N :: acc1 else acc1 in
               drive_trace f k fails g' acc2
           | None => rev acc
           end
  end.

Definition model_trace (d : desc) (cwd_root fails : bool) : list N :=
  drive_trace 40 ReleaseSamePath fails (mkGlobal false None [start_proc (d, cwd_root)]) [].

Lemma model_trace_ok : forall d cwd_root fails, trace_ok false (model_trace d cwd_root fails) = true.
Proof.
  intros [l c r b] cwd_root fails.
  destruct l, c, r, b, cwd_root, fails; vm_compute; reflexivity.
Qed.

Lemma model_trace_lock_events : forall d cwd_root fails,
  lock_events (model_trace d cwd_root fails) =
  drive_eff 40 ReleaseSamePath fails (mkGlobal false None [start_proc (d, cwd_root)]) [].
Proof.
  intros [l c r b] cwd_root fails.
  destruct l, c, r, b, cwd_root, fails; vm_compute; reflexivity.
Qed.

Example model_trace_pull : model_trace pull_desc false false = [0; 2; 1; 0; 2; 1]%N.
Proof. reflexivity. Qed.

(* Race-detector runs (family race; C13 / C14): rc_bad = wrong checksums / errors of one in-process
   round, or the number of DATA RACE reports; rc_off = 1 when the harness was not built with the race
   detector (then nothing was observed: a broken tie, not a pass). *)
Record racecase := mkRace { rc_id : N; rc_bad : N; rc_off : N }.
Definition verdict_race (c : racecase) : N :=
  ((if (rc_off c =? 0)%N then 0 else 1) + (if (rc_bad c =? 0)%N then 0 else 2))%N.
Definition run_race (cs : list racecase) : list (N * N) :=
  filter (fun p => negb (snd p =? 0)%N) (map (fun c => (rc_id c, verdict_race c)) cs).
