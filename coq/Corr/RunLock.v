(* Correspondence runner for C12: one dud invocation = one process of Model/Lock.v driven to
   quiescence by a deterministic scheduler; N concurrent invocations = observed counters. *)
From Coq Require Import NArith List Bool Arith.
From DudV Require Import Model.Lock.
Import ListNotations.

Record lcase := mkL {
  l_id : N;
  l_desc : N;          (* 0 prepare-based, 1 config get/set, 2 pull, 3 never locks *)
  l_cwd_root : bool;
  l_fails : bool;      (* the command's own body fails (observed: non-zero exit without a foreign lock) *)
  l_prelocked : bool;  (* .dud/lock existed before the invocation *)
  l_ok : bool;         (* observed: exit status 0 *)
  l_lock_after : bool  (* observed: .dud/lock exists after the process exited *) }.

Definition desc_of (n : N) : desc :=
  match n with
  | 0%N => prepare_desc | 1%N => config_desc | 2%N => pull_desc | _ => nolock_desc
  end.

Definition try_labels (fails : bool) : list label :=
  [LResolve; LAcquireOk; LAcquireRefused; (if fails then LBodyFail else LBodyOk); LBodyOk; LUnlock; LRelock; LExit].

Fixpoint first_step (k : release_kind) (ls : list label) (g : global) : option global :=
  match ls with
  | [] => None
  | l :: r => match step_proc k l g 0 with Some g' => Some g' | None => first_step k r g end
  end.

Fixpoint drive (fuel : nat) (k : release_kind) (fails : bool) (g : global) : global :=
  match fuel with
  | O => g
  | S f => match first_step k (try_labels fails) g with
           | Some g' => drive f k fails g'
           | None => g
           end
  end.

Definition model_lock (c : lcase) : option (bool * bool) :=
  let g0 := mkGlobal (l_prelocked c) None [start_proc (desc_of (l_desc c), l_cwd_root c)] in
  let g := drive 40 ReleaseSamePath (l_fails c) g0 in
  match procs g with
  | [p] => match exit_code p with
           | Some code => Some (Nat.eqb code 0, lockfile g)
           | None => None
           end
  | _ => None
  end.

Definition verdict_lock (c : lcase) : N :=
  let corr := match model_lock c with
              | Some (ok, lk) => Bool.eqb ok (l_ok c) && Bool.eqb lk (l_lock_after c)
              | None => false
              end in
  (* the property on the implementation: a command that exits on its own leaves the project
     unlocked; a refused command exits non-zero and does not remove the holder's lock *)
  let spec := if l_prelocked c
              then (if (l_desc c =? 3)%N then l_lock_after c
                    else negb (l_ok c) && l_lock_after c)
              else negb (l_lock_after c) in
  ((if corr then 0 else 1) + (if spec then 0 else 2))%N.

Definition run_lock (cs : list lcase) : list (N * N) :=
  filter (fun p => negb (snd p =? 0)%N) (map (fun c => (l_id c, verdict_lock c)) cs).

(* N processes released from a barrier *)
Record ccase := mkC {
  c_id : N; c_n : N; c_ok : N; c_refused : N; c_other : N; c_violations : N; c_lock_after : bool;
  c_unchanged_by_refused : bool }.
Definition verdict_conc (c : ccase) : N :=
  let spec := (c_violations c =? 0)%N && negb (c_lock_after c) &&
              (c_ok c + c_refused c + c_other c =? c_n c)%N && (c_other c =? 0)%N &&
              (1 <=? c_ok c)%N && c_unchanged_by_refused c in
  (if spec then 0 else 2)%N.
Definition run_conc (cs : list ccase) : list (N * N) :=
  filter (fun p => negb (snd p =? 0)%N) (map (fun c => (c_id c, verdict_conc c)) cs).
