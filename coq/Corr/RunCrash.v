(* Executable statements of C03 (kill at any instant) and C04 (failed commit, retry) evaluated on
   the implementation's observed states: S = before the command, F = after an undisturbed run of
   the same command from S, W = after the disturbed run (killed at, or failing at, the k-th
   mutating system call of the dud process), R = after removing the cause and retrying. *)
From Coq Require Import NArith List Bool.
From DudV Require Import Base.Bytes Base.Blake3 Base.Json Base.GoPath Model.Fs Model.Cache Model.Stage Model.Index Model.System Corr.RunSys.
Import ListNotations.
Local Open Scope N_scope.

Record kcase := mkK {
  k_id : N;
  k_pre : world;
  k_final : world;
  k_cut : world;
  k_raw : list (bytes * bytes * bytes);      (* stage files: bytes in S, F, W *)
  k_exit_ok : bool;                          (* the disturbed run exited 0 *)
  k_retry : option (bool * world);           (* retry: exit 0?, state *)
  k_specs : list N }.

(* all (path, bytes) of regular files, links followed, below a node *)
Fixpoint files_of (c : cache) (pre : list bytes) (n : node) : list (list bytes * bytes) :=
  match n with
  | File b => [(pre, b)]
  | LinkC d => match alookup d c with Some o => [(pre, o_data o)] | None => [] end
  | Dir es => flat_map (fun e => files_of c (pre ++ [fst e]) (snd e)) es
  | _ => []
  end.

(* the tracked files of a world: everything at or below an artifact (input or output) of an
   indexed stage *)
Definition tracked_files (w : world) : list (list bytes * bytes) :=
  flat_map (fun f =>
    match snd f with
    | Some s => if mem (fst f) (w_index w)
                then flat_map (fun a => match get (w_root w) (comps (a_path a)) with
                                        | Some n => files_of (w_cache w) (comps (a_path a)) n
                                        | None => [] end) (s_outputs s ++ s_inputs s)
                else []
    | None => []
    end) (w_stages w).

Definition retrievable (w : world) (p : list bytes) (b : bytes) : bool :=
  (match get (w_root w) p with
   | Some (File b') => beqb b b'
   | Some (LinkC d) => match alookup d (w_cache w) with Some o => beqb (o_data o) b | None => false end
   | _ => false
   end) ||
  (match alookup (hexdigest b) (w_cache w) with Some o => beqb (o_data o) b | None => false end).

(* C03: every byte string a tracked file held before is still at its path (directly or through
   a link) or in the cache under its digest *)
Definition spec_no_loss (s w : world) : bool :=
  forallb (fun pb => retrievable w (fst pb) (snd pb)) (tracked_files s).

(* C03: no object exists under a digest name with incomplete or different bytes (objects that
   were already there before are not re-examined) *)
Definition spec_no_torn (s w : world) : bool :=
  forallb (fun kv => match alookup (fst kv) (w_cache s) with
                     | Some o => if beqb (o_data o) (o_data (snd kv)) then true
                                 else beqb (fst kv) (hexdigest (o_data (snd kv)))
                     | None => beqb (fst kv) (hexdigest (o_data (snd kv)))
                     end) (w_cache w).

(* C03: every stage file and the index is its complete previous or its complete new version *)
Definition spec_meta_atomic (c : kcase) : bool :=
  forallb (fun t => let '(s, f, w) := t in beqb w s || beqb w f) (k_raw c) &&
  (list_eqb beqb (w_index (k_cut c)) (w_index (k_pre c)) ||
   list_eqb beqb (w_index (k_cut c)) (w_index (k_final c))).

Definition same_result (a b : world) : bool :=
  node_eqb (w_root a) (w_root b) && cache_eqb (w_cache a) (w_cache b) &&
  stages_eqb (w_stages a) (w_stages b) && list_eqb beqb (w_index a) (w_index b).

Definition k_table (c : kcase) : list (N * bool) :=
  [ (40, spec_no_loss (k_pre c) (k_cut c));
    (41, spec_no_torn (k_pre c) (k_cut c));
    (42, spec_meta_atomic c);
    (* C04: the failed command leaves the project unlocked *)
    (43, negb (w_lock (k_cut c)));
    (* C04: a run disturbed by an error either reports it (non-zero exit) or completed the work *)
    (44, negb (k_exit_ok c) || same_result (k_cut c) (k_final c));
    (* C04: stage files stay well-formed (each still loads) *)
    (45, forallb (fun f => match snd f with Some _ => true | None => false end) (w_stages (k_cut c)));
    (* C04: once the cause is removed, a retry succeeds and ends where an undisturbed commit ends *)
    (46, match k_retry c with
         | Some (ok, r) => ok && same_result r (k_final c) && negb (w_lock r)
         | None => true
         end);
    (* C02 under disturbance: no object that was in the cache before changed bytes or disappeared *)
    (48, forallb (fun kv => match alookup (fst kv) (w_cache (k_cut c)) with
                            | Some o => beqb (o_data o) (o_data (snd kv))
                            | None => false end) (w_cache (k_pre c)) &&
         match k_retry c with
         | Some (_, r) => forallb (fun kv => match alookup (fst kv) (w_cache r) with
                                             | Some o => beqb (o_data o) (o_data (snd kv))
                                             | None => false end) (w_cache (k_pre c))
         | None => true
         end);
    (* C04 (weaker half of 46, reported separately): the retry succeeds and loses nothing *)
    (47, match k_retry c with
         | Some (ok, r) => ok && spec_no_loss (k_pre c) r
         | None => true
         end) ].

Definition k_fails (c : kcase) : list N :=
  map fst (filter (fun e => existsb (N.eqb (fst e)) (k_specs c) && negb (snd e)) (k_table c)).

Definition run_crash (cs : list kcase) : list (N * N * list N) :=
  filter (fun p => negb (snd (fst p) =? 0))
         (map (fun c => (k_id c, (match k_fails c with [] => 0 | _ => 2 end), k_fails c)) cs).

(* debugging aid: which parts of the retried state differ from the undisturbed final state *)
Definition k_diff (c : kcase) : list N :=
  match k_retry c with
  | Some (ok, r) =>
    (if ok then [] else [1]) ++
    (if node_eqb (w_root r) (w_root (k_final c)) then [] else [2]) ++
    (if cache_eqb (w_cache r) (w_cache (k_final c)) then [] else [3]) ++
    (if stages_eqb (w_stages r) (w_stages (k_final c)) then [] else [4]) ++
    (if w_lock r then [5] else [])
  | None => []
  end.
