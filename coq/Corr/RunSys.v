(* Correspondence runner for whole-program transitions: each case is one dud command executed by
   the real binary between two observed project states.  The model is run from the OBSERVED
   pre-state (so every step is checked on its own and failures do not accumulate) and compared
   with the observed post-state; the executable statements of the properties selected by
   [t_specs] are evaluated on the implementation's observations. *)
From Coq Require Import NArith List Bool.
From DudV Require Import Model.Render Model.Init Model.Remote.
From DudV Require Import Base.Bytes Base.Blake3 Base.Json Base.GoPath Model.Fs Model.Cache Model.Stage Model.Index Model.System.
Import ListNotations.
Local Open Scope N_scope.

Record tcase := mkT {
  t_id : N;
  t_sems : list (bytes * cmdsem);
  t_pre : world;
  t_cmd : command;
  t_ok : bool;                 (* dud exited 0 *)
  t_post : world;
  t_out : output;
  t_ref : option node;         (* workspace root the implementation had before the original commit *)
  t_specs : list N;
  t_obs : list N;
  t_text : list (bytes * bytes);
  t_protect : list bytes }.  (* `dud status` (human) lines: artifact path, rendered status *)            (* observed facts: 1 = something outside project/cache/config changed,
                                  2 = the dud process itself issued a mutating system call on a stage
                                  artifact during run, ... *)

Definition obj_eqb (a b : cobj) : bool := beqb (o_data a) (o_data b) && (o_mode a =? o_mode b).
Fixpoint cache_eqb (a b : cache) : bool :=
  match a, b with
  | [], [] => true
  | (k, v) :: a', (k', v') :: b' => beqb k k' && obj_eqb v v' && cache_eqb a' b'
  | _, _ => false
  end.
Fixpoint list_eqb {A} (eq : A -> A -> bool) (a b : list A) : bool :=
  match a, b with
  | [], [] => true
  | x :: a', y :: b' => eq x y && list_eqb eq a' b'
  | _, _ => false
  end.
Definition stage_eqb (a b : stage) : bool :=
  beqb (s_cs a) (s_cs b) && beqb (s_cmd a) (s_cmd b) && beqb (s_wd a) (s_wd b) &&
  list_eqb art_eqb (s_inputs a) (s_inputs b) && list_eqb art_eqb (s_outputs a) (s_outputs b).
Definition ostage_eqb (a b : option stage) : bool :=
  match a, b with Some x, Some y => stage_eqb x y | None, None => true | _, _ => false end.
Definition stages_eqb (a b : list (bytes * option stage)) : bool :=
  list_eqb (fun x y => beqb (fst x) (fst y) && ostage_eqb (snd x) (snd y)) a b.
Definition world_eqb (a b : world) : bool :=
  node_eqb (w_root a) (w_root b) && cache_eqb (w_cache a) (w_cache b) &&
  stages_eqb (w_stages a) (w_stages b) && list_eqb beqb (w_index a) (w_index b) &&
  Bool.eqb (w_lock a) (w_lock b).

Fixpoint stree_eqb (a b : stree) : bool :=
  match a, b with
  | St aa aw ah ai ac ak, St ba bw bh bi bc bk =>
    art_eqb aa ba && fstatus_eqb aw bw && Bool.eqb ah bh && Bool.eqb ai bi && Bool.eqb ac bc &&
    (fix go (x y : list (bytes * stree)) : bool :=
       match x, y with
       | [], [] => true
       | (k, v) :: xr, (k', v') :: yr => beqb k k' && stree_eqb v v' && go xr yr
       | _, _ => false
       end) ak bk
  end.
Fixpoint insert_b (x : bytes) (l : list bytes) : list bytes :=
  match l with
  | [] => [x]
  | y :: r => if bltb y x then y :: insert_b x r else x :: l
  end.
Definition isort (l : list bytes) : list bytes := fold_right insert_b [] l.

Definition sstatus_eqb (a b : sstatus) : bool :=
  Bool.eqb (ss_has a) (ss_has b) && Bool.eqb (ss_match a) (ss_match b) &&
  list_eqb (fun x y => beqb (fst x) (fst y) && stree_eqb (snd x) (snd y)) (ss_arts a) (ss_arts b).
Definition output_eqb (a b : output) : bool :=
  match a, b with
  | ONone, _ => true           (* the model has nothing to say *)
  | OStatus x, OStatus y => list_eqb (fun p q => beqb (fst p) (fst q) && sstatus_eqb (snd p) (snd q)) x y
  | ORun x, ORun y => list_eqb beqb (isort x) (isort y)   (* as multisets: the order is Go map order *)
  | _, _ => false
  end.

(* ---- executable statements of properties, on observations ---- *)
Definition digest_ok (d : bytes) (o : cobj) : bool :=
  (N.of_nat (length d) =? 64) && is_lower_hex d && beqb d (hexdigest (o_data o)) && (o_mode o =? 292).

(* C02: every object that is new or changed w.r.t. the previous observation is well-formed, and
   no previously observed object changed bytes or disappeared *)
Definition spec_cache (pre post : cache) : bool :=
  forallb (fun kv => match alookup (fst kv) pre with
                     | Some o => if obj_eqb o (snd kv) then true else digest_ok (fst kv) (snd kv)
                     | None => digest_ok (fst kv) (snd kv)
                     end) post &&
  forallb (fun kv => match alookup (fst kv) post with
                     | Some o => beqb (o_data o) (o_data (snd kv))
                     | None => false
                     end) pre.
Definition spec_cache_all (post : cache) : bool := forallb (fun kv => digest_ok (fst kv) (snd kv)) post.

(* links followed *)
Fixpoint logical (c : cache) (n : node) : node :=
  match n with
  | LinkC d => match alookup d c with Some o => File (o_data o) | None => n end
  | Dir es => Dir (map (fun e => (fst e, logical c (snd e))) es)
  | _ => n
  end.

(* the non-recursive view of a directory: files directly inside *)
Definition tracked_view (a : artifact) (n : node) : node :=
  match n with
  | Dir es => if a_norec a then Dir (filter (fun e => negb (is_dir (snd e))) es) else n
  | _ => n
  end.

(* C01/C11/C20: every non-skip output of the given stages is, links followed, what [ref] held *)
Definition spec_roundtrip (ref : node) (w : world) (only : list bytes) : bool :=
  forallb (fun f =>
    match snd f with
    | Some s =>
      if negb (mem (fst f) (w_index w)) then true else
      if match only with [] => false | _ => negb (mem (fst f) only) end then true else
      forallb (fun a =>
        if a_skip a then true else
        match get ref (comps (a_path a)), get (w_root w) (comps (a_path a)) with
        | Some r, Some n =>
          node_eqb (tracked_view a (logical [] r)) (tracked_view a (logical (w_cache w) n))
        | None, _ => true
        | _, _ => false
        end) (s_outputs s)
    | None => true
    end) (w_stages w).

(* C16: the recorded checksum is the Merkle function of path and logical content *)
Fixpoint merkle (a_p : bytes) (norec : bool) (n : node) : option bytes :=
  match n with
  | File b => Some (hexdigest b)
  | Dir es =>
    let fix go (es : list (bytes * node)) : option (list (bytes * artifact)) :=
      match es with
      | [] => Some []
      | (name, ch) :: r =>
        if norec && is_dir ch then go r else
        match merkle name false ch, go r with
        | Some d, Some l => Some ((name, mkArt d name (is_dir ch) false false) :: l)
        | _, _ => None
        end
      end in
    match go es with
    | Some l => Some (hexdigest (enc_manifest (mkMan a_p l)))
    | None => None
    end
  | _ => None
  end.

(* [only] = the stages the commit traversed ([] = all of them); outputs, and the PLAIN inputs (an
   input owned by another stage records that stage's artifact checksum, which is C09's business) *)
Definition spec_merkle (w : world) (only : list bytes) : bool :=
  let idx := match load_index (w_index w) (w_stages w) [] with Some i => i | None => [] end in
  forallb (fun f =>
    if match only with [] => false | _ => negb (mem (fst f) only) end then true else
    match snd f with
    | Some s =>
      forallb (fun a =>
        match a_cs a with
        | [] => true
        | cs => match get (w_root w) (comps (a_path a)) with
                | Some n => match merkle (a_path a) (a_norec a) (logical (w_cache w) n) with
                            | Some d => beqb d cs
                            | None => true
                            end
                | None => true
                end
        end) (s_outputs s ++ filter (fun a => match find_owner idx (a_path a) with Some _ => false | None => true end)
                                    (s_inputs s))   (* the role of the artifact does not matter either *)
      &&
      (* an input owned by another stage carries exactly the checksum that stage records for the
         owning artifact: one artifact, one checksum, whoever was committed first *)
      forallb (fun a =>
        match find_owner idx (a_path a) with
        | Some (op, oa) =>
            match alookup op (w_stages w) with
            | Some (Some os) =>
                match art_lookup (a_path oa) (s_outputs os) with
                | Some oa' => beqb (a_cs a) (a_cs oa')
                | None => true
                end
            | _ => true
            end
        | None => true
        end) (s_inputs s)
    | None => true
    end) (w_stages w).

Fixpoint all_cm (s : stree) : bool :=
  match s with
  | St _ _ _ _ cm kids =>
    cm && (fix go (l : list (bytes * stree)) : bool :=
             match l with [] => true | (_, k) :: r => all_cm k && go r end) kids
  end.

(* C06: [preserved] as a boolean: unchanged, newly created, matching link -> copy, directory
   whose entries are preserved *)
Fixpoint pres_n (c : cache) (copy : bool) (n : node) (post : option node) {struct n} : bool :=
  match post with
  | None => false
  | Some m =>
    node_eqb n m ||
    match n, m with
    | LinkC d, File b => copy && match alookup d c with Some o => beqb (o_data o) b | None => false end
    | Dir es, Dir es' =>
      (fix go (l : list (bytes * node)) : bool :=
         match l with
         | [] => true
         | (k, v) :: r => pres_n c copy v (alookup k es') && go r
         end) es
    | _, _ => false
    end
  end.
Definition preserved_b (c : cache) (copy : bool) (pre post : option node) : bool :=
  match pre with None => true | Some n => pres_n c copy n post end.

(* C05: the logical tree a checksum stands for, and the independent truth of "up-to-date" *)
Fixpoint expand (fuel : nat) (a : artifact) (c : cache) : option node :=
  match fuel with
  | O => None
  | S f =>
    match alookup (a_cs a) c with
    | None => None
    | Some o =>
      if a_isdir a then
        match dec_manifest (o_data o) with
        | None => None
        | Some m =>
          option_map Dir
            ((fix go (kids : list (bytes * artifact)) : option (list (bytes * node)) :=
                match kids with
                | [] => Some []
                | (k, ch) :: r => match expand f ch c, go r with
                                  | Some t, Some l => Some ((k, t) :: l)
                                  | _, _ => None
                                  end
                end) (m_contents m))
        end
      else Some (File (o_data o))
    end
  end.

Definition truth (a : artifact) (slot : option node) (c : cache) : bool :=
  match slot with
  | None => false
  | Some n =>
    if a_skip a then
      match n with
      | File b => has_cs (a_cs a) && beqb (hexdigest b) (a_cs a)
      | _ => false
      end
    else
      Bool.eqb (a_isdir a) (is_dir n) &&
      match expand 64 a c with
      | Some t => node_eqb (tracked_view a (logical c n)) t
      | None => false
      end
  end.

(* every artifact status (top level) agrees with the truth; children of directories are
   checked through their own recorded artifacts *)
Fixpoint status_truth (fuel : nat) (s : stree) (slot : option node) (c : cache) : bool :=
  match fuel with
  | O => true
  | S f =>
    match s with
    | St a _ _ _ cm kids =>
      Bool.eqb cm (truth a slot c) &&
      match slot with
      | Some (Dir es) =>
        (fix go (l : list (bytes * stree)) : bool :=
           match l with
           | [] => true
           | (k, ks) :: r =>
             (* only tracked children carry a recorded artifact; untracked ones must be false *)
             (match st_art ks with
              | a' => if has_cs (a_cs a') then status_truth f ks (alookup k es) c
                      else negb (st_cm ks)
              end) && go r
           end) kids
      | _ => true
      end
    end
  end.

(* what status prints for an artifact of a stage is about THAT stage's record of it: the checksum
   shown is the one in the stage file (for an input owned by another stage the owner's record may be
   shown instead) *)
Definition own_record (w : world) (sp path : bytes) (shown : artifact) : bool :=
  match alookup sp (w_stages w) with
  | Some (Some stg) =>
    match art_lookup path (s_outputs stg ++ s_inputs stg) with
    | Some a' =>
      beqb (a_cs a') (a_cs shown) ||
      match load_index (w_index w) (w_stages w) [] with
      | Some idx => match find_owner idx path with
                    | Some (_, oa) => beqb (a_cs oa) (a_cs shown)
                    | None => false
                    end
      | None => false
      end
    | None => false
    end
  | _ => false
  end.

Definition spec_status_truth (w : world) (out : output) : bool :=
  match out with
  | OStatus l =>
    forallb (fun s => forallb (fun a =>
      own_record w (fst s) (fst a) (st_art (snd a)) &&
      status_truth 8 (snd a) (get (w_root w) (comps (fst a))) (w_cache w)) (ss_arts (snd s))) l
  | _ => false
  end.

(* C07: plain inputs and skip-cache artifacts are physically untouched *)
Definition spec_inputs_untouched (pre post : world) : bool :=
  match load_index (w_index pre) (w_stages pre) [] with
  | None => true
  | Some idx =>
    forallb (fun e =>
      forallb (fun a =>
        match find_owner idx (a_path a) with
        | Some _ => true
        | None => onode_eqb (get (w_root pre) (comps (a_path a))) (get (w_root post) (comps (a_path a)))
        end) (s_inputs (snd e)) &&
      forallb (fun a =>
        if a_skip a
        then onode_eqb (get (w_root pre) (comps (a_path a))) (get (w_root post) (comps (a_path a)))
        else true) (s_outputs (snd e))) idx
  end.

(* ---- C08 / C09 on the implementation's own execution log ---- *)
Definition owners_of (idx : index) (sp : bytes) : list bytes :=
  match alookup sp idx with
  | None => []
  | Some stg => flat_map (fun a => match find_owner idx (a_path a) with
                                   | Some (op, _) => [op] | None => [] end) (s_inputs stg)
  end.
Fixpoint closure (fuel : nat) (idx : index) (front seen : list bytes) : list bytes :=
  match fuel with
  | O => seen
  | S f =>
    let new := filter (fun x => negb (mem x seen)) (flat_map (owners_of idx) front) in
    match new with
    | [] => seen
    | _ => closure f idx new (seen ++ new)
    end
  end.
Definition upstream (idx : index) (ts : list bytes) : list bytes := closure (S (length idx)) idx ts ts.
Definition on_cycle (idx : index) (sp : bytes) : bool :=
  mem sp (closure (S (length idx)) idx (owners_of idx sp) (owners_of idx sp)).
Fixpoint nodup_b (l : list bytes) : bool :=
  match l with [] => true | x :: r => negb (mem x r) && nodup_b r end.
Fixpoint index_of (x : bytes) (l : list bytes) (i : nat) : option nat :=
  match l with [] => None | y :: r => if beqb x y then Some i else index_of x r (S i) end.

(* [subseq_b l m]: l is a subsequence of m *)
Fixpoint subseq_b (l m : list bytes) : bool :=
  match l, m with
  | [], _ => true
  | _ :: _, [] => false
  | x :: l', y :: m' => if beqb x y then subseq_b l' m' else subseq_b l m'
  end.

(* each stage at most once; an executed owner precedes its user; only requested/upstream stages;
   with --single-stage the requested stages execute in the order in which they were requested *)
Definition spec_valid_log (w : world) (targets : list bytes) (single : bool) (log : list bytes) : bool :=
  match load_index (w_index w) (w_stages w) [] with
  | None => true
  | Some idx =>
    let ts := all_or targets idx in
    nodup_b log &&
    forallb (fun s => mem s (if single then ts else upstream idx ts)) log &&
    (if single then match targets with [] => true | _ => subseq_b log targets end else true) &&
    (single ||
     forallb (fun b => forallb (fun a =>
        match index_of a log 0, index_of b log 0 with
        | Some i, Some j => Nat.ltb i j
        | _, _ => true
        end) (owners_of idx b)) log) &&
    forallb (fun s => negb (on_cycle idx s)) log
  end.

(* C08/C11: the stages a successful push / fetch announces ([log], in completion order) are exactly
   the requested stages and (unless --single-stage) everything upstream of them - the model's
   traversal [Remote.visited] - each once, a stage's owners before the stage itself *)
Definition spec_visit (w : world) (targets : list bytes) (single : bool) (log : list bytes) : bool :=
  match load_index (w_index w) (w_stages w) [] with
  | None => true
  | Some idx =>
    let recursive := match targets with [] => true | _ => negb single end in
    match Remote.visited idx recursive (all_or targets idx) with
    | Err => false
    | Ok sps =>
      nodup_b log &&
      forallb (fun s => mem s sps) log && forallb (fun s => mem s log) sps &&
      (negb recursive ||
       forallb (fun b => forallb (fun a =>
          match index_of a log 0, index_of b log 0 with
          | Some i, Some j => Nat.ltb i j
          | _, _ => true
          end) (owners_of idx b)) log)
    end
  end.

(* C09: after a successful recursive run every visited stage with a command has outputs that
   are what its command produces from the current inputs *)
Definition spec_consistent (sems : list (bytes * cmdsem)) (w : world) (targets : list bytes) : bool :=
  match load_index (w_index w) (w_stages w) [] with
  | None => true
  | Some idx =>
    forallb (fun sp =>
      match alookup sp sems, alookup sp idx with
      | Some k, Some stg =>
        match s_cmd stg with
        | [] => true
        | _ => match cat_all (w_root w) (w_cache w) (k_srcs k), read_through (w_root w) (w_cache w) (k_dst k) with
               | Some x, Some y => beqb x y
               | _, _ => false
               end
        end
      | _, _ => true
      end) (upstream idx (all_or targets idx))
  end.

(* C09: a run straight after `run; commit` executes no stage that has inputs *)
Definition spec_quiet (w : world) (log : list bytes) : bool :=
  match load_index (w_index w) (w_stages w) [] with
  | None => true
  | Some idx => forallb (fun sp => match alookup sp idx with
                                   | Some stg => match s_inputs stg with [] => true | _ => false end
                                   | None => true end) log
  end.

Definition run_log (c : tcase) : list bytes := match t_out c with ORun l => l | _ => [] end.
Definition run_args (c : tcase) : list bytes * bool :=
  match t_cmd c with CRun ts s => (ts, s) | _ => ([], false) end.

(* ---- C05: the human rendering says "up-to-date" exactly when ContentsMatch is true ---- *)
Fixpoint split_on (sep : N) (s cur : bytes) : list bytes :=
  match s with
  | [] => [rev cur]
  | b :: r => if b =? sep then rev cur :: split_on sep r [] else split_on sep r (b :: cur)
  end.
Fixpoint ltrim (s : bytes) : bytes := match s with 32 :: r => ltrim r | _ => s end.
(* drop a leading "<digits>x " count *)
Fixpoint drop_count (s : bytes) : bytes :=
  match s with
  | b :: r => if (48 <=? b) && (b <=? 57) then drop_count r
              else if b =? 120 then ltrim r else s
  | [] => []
  end.
(* "up-to-date", "up-to-date (link)", "up-to-date (not cached)", "directory", "empty directory" *)
Definition ok_labels : list bytes :=
  [[117; 112; 45; 116; 111; 45; 100; 97; 116; 101];
   [117; 112; 45; 116; 111; 45; 100; 97; 116; 101; 32; 40; 108; 105; 110; 107; 41];
   [117; 112; 45; 116; 111; 45; 100; 97; 116; 101; 32; 40; 110; 111; 116; 32; 99; 97; 99; 104; 101; 100; 41];
   [100; 105; 114; 101; 99; 116; 111; 114; 121];
   [101; 109; 112; 116; 121; 32; 100; 105; 114; 101; 99; 116; 111; 114; 121]].
Definition human_ok (text : bytes) : bool :=
  forallb (fun item =>
    let it := ltrim item in
    let lbl := match it with
               | b :: _ => if (48 <=? b) && (b <=? 57) then drop_count it else it
               | [] => [] end in
    existsb (beqb lbl) ok_labels) (split_on 44 text []).
Definition spec_human (c : tcase) : bool :=
  match t_out c with
  | OStatus l =>
    forallb (fun pt =>
      match flat_map (fun s => match alookup (fst pt) (ss_arts (snd s)) with Some st => [st] | None => [] end) l with
      | st :: _ =>
        (* the text is exactly what the model of Status.String() (Model/Render.v) makes of the
           status the same command reports with --debug, and it reads "up to date" iff that
           status says the contents match *)
        beqb (render st) (snd pt) && Bool.eqb (human_ok (snd pt)) (st_cm st)
      | [] => true
      end) (t_text c)
  | _ => true
  end.

Definition has_obs (c : tcase) (n : N) : bool := existsb (N.eqb n) (t_obs c).

Definition has_spec (c : tcase) (n : N) : bool := existsb (N.eqb n) (t_specs c).

(* the stages a checkout with explicit targets visits ([] = all) *)
Definition cmd_scope (c : tcase) : list bytes :=
  match t_cmd c with
  | CCheckout ((_ :: _) as ts) _ single =>
    match load_index (w_index (t_pre c)) (w_stages (t_pre c)) [] with
    | Some idx =>
      match fold_left (fun acc t => match acc with
                                    | Ok done => walk_stage (S (length idx)) idx (negb single) done [] t
                                    | Err => Err end) ts (Ok []) with
      | Ok done => done
      | Err => []
      end
    | None => []
    end
  | _ => []
  end.

(* C08: a command on explicit targets leaves the stage file (record, bytes, inode, mtime: observation
   100+k for the k-th stage of the pre-state) and the output artifacts of every stage OUTSIDE the
   traversal (targets and, unless --single-stage, their upstream closure) physically untouched *)
Definition scope_targets (c : tcase) : option (list bytes * bool) :=
  match t_cmd c with
  | CCommit ts _ => Some (ts, true)
  | CCheckout ts _ s => Some (ts, negb s)
  | CStatus ts => Some (ts, true)
  | CRun ts s => Some (ts, negb s)
  | CPush ts s => Some (ts, negb s)
  | CFetch ts s => Some (ts, negb s)
  | _ => None
  end.

Definition full_scope (c : tcase) : option (list bytes) :=
  match scope_targets c with
  | Some ((_ :: _) as ts, recursive) =>
    match load_index (w_index (t_pre c)) (w_stages (t_pre c)) [] with
    | Some idx =>
      match fold_left (fun acc t => match acc with
                                    | Ok done => walk_stage (S (length idx)) idx recursive done [] t
                                    | Err => Err end) ts (Ok []) with
      | Ok done => Some done
      | Err => None
      end
    | None => None
    end
  | _ => None
  end.

Fixpoint others_untouched (c : tcase) (sc : list bytes) (k : N) (l : list (bytes * option stage)) : bool :=
  match l with
  | [] => true
  | (sp, os) :: r =>
    (mem sp sc ||
     (negb (has_obs c (100 + k)) &&
      match os, alookup sp (w_stages (t_post c)) with
      | Some a, Some (Some b) =>
          stage_eqb a b &&
          forallb (fun art => onode_eqb (get (w_root (t_pre c)) (comps (a_path art)))
                                        (get (w_root (t_post c)) (comps (a_path art)))) (s_outputs a)
      | None, Some None => true
      | _, _ => false
      end)) && others_untouched c sc (k + 1) r
  end.

Definition spec_others_untouched (c : tcase) : bool :=
  match full_scope c with
  | None => true
  | Some sc => others_untouched c sc 0 (w_stages (t_pre c))
  end.

Definition spec_table (c : tcase) : list (N * bool) :=
  [
   (1, (spec_cache (w_cache (t_pre c)) (w_cache (t_post c))));
   (12, (spec_cache_all (w_cache (t_post c))));
   (2, (t_ok c && world_eqb (t_pre c) (t_post c) && negb (existsb (N.eqb 8) (t_obs c))));
   (3, (match t_ref c with Some r => t_ok c && spec_roundtrip r (t_post c) (cmd_scope c) | None => true end));
   (5, (negb (t_ok c)));
   (7, ((if t_ok c then spec_merkle (t_post c) (match full_scope c with Some sc => sc | None => [] end) else true)));
   (8, (cache_eqb (w_cache (t_pre c)) (w_cache (t_post c))));
   (9, (stages_eqb (w_stages (t_pre c)) (w_stages (t_post c))));
   (11, (t_ok c));
   (13, (negb (w_lock (t_post c))));
   (14, (node_eqb (logical (w_cache (t_pre c)) (w_root (t_pre c))) (logical (w_cache (t_post c)) (w_root (t_post c)))));
   (4, (preserved_b (w_cache (t_pre c))
                 (match t_cmd c with CCheckout _ cp _ => cp | _ => false end)
                 (Some (w_root (t_pre c))) (Some (w_root (t_post c)))));
   (6, (t_ok c && spec_status_truth (t_pre c) (t_out c)));
   (10, (spec_inputs_untouched (t_pre c) (t_post c) &&
         (* ... and so are the paths the scenario DEFINED as plain inputs / skip-cache artifacts, whatever
            the stage file says by now (a flag lost on the way must not hide the damage) *)
         forallb (fun p => onode_eqb (get (w_root (t_pre c)) (comps p)) (get (w_root (t_post c)) (comps p)))
                 (t_protect c)));
   (20, (negb (has_obs c 1)));
   (24, (negb (has_obs c 3)));
   (26, (spec_human c));
   (27, (spec_others_untouched c));
   (21, (node_eqb (w_root (t_pre c)) (w_root (t_post c))));
   (18, ((if t_ok c then spec_valid_log (t_pre c) (fst (run_args c)) (snd (run_args c)) (run_log c) else true)));
   (19, ((if t_ok c then spec_consistent (t_sems c) (t_post c) (fst (run_args c)) else true)));
   (* C17: a commit (any command but stage add / remove) never changes a DEFINITION: the serialised
      definition (command, working directory, paths and flags of inputs and outputs, checksums
      blanked - Index.def_json) of every stage file is the same before and after *)
   (38, (forallb (fun pre => match snd pre, alookup (fst pre) (w_stages (t_post c)) with
                             | Some s, Some (Some s') => beqb (def_json s) (def_json s')
                             | Some _, _ => false
                             | None, _ => true
                             end) (w_stages (t_pre c))));
   (29, (match t_out c with
          | OStatus l => negb (match l with [] => true | _ => false end) && forallb (fun s => negb (ss_match (snd s))) l
          | _ => false
          end));
   (28, (match t_cmd c with
          | CPush ts sg | CFetch ts sg => if t_ok c then spec_visit (t_pre c) ts sg (run_log c) else true
          | _ => true
          end));
   (23, (match load_index (w_index (t_pre c)) (w_stages (t_pre c)) [] with
     | Some idx => forallb (fun s => negb (on_cycle idx s)) (run_log c)
     | None => true
     end));
   (22, ((if t_ok c then spec_quiet (t_pre c) (run_log c) else true)));
   (16, (t_ok c && cache_eqb (w_cache (t_pre c)) (w_cache (t_post c)) &&
     stages_eqb (w_stages (t_pre c)) (w_stages (t_post c)) &&
     list_eqb beqb (w_index (t_pre c)) (w_index (t_post c)) &&
     node_eqb (logical (w_cache (t_pre c)) (w_root (t_pre c))) (logical (w_cache (t_post c)) (w_root (t_post c)))));
   (15, (match t_out c with
     | OStatus l => forallb (fun s => ss_match (snd s) && forallb (fun a => all_cm (snd a)) (ss_arts (snd s))) l
     | _ => false
     end))
  ].

Definition spec_fails (c : tcase) : list N :=
  map fst (filter (fun e => has_spec c (fst e) && negb (snd e)) (spec_table c)).
Definition spec_ok (c : tcase) : bool := match spec_fails c with [] => true | _ => false end.

Definition corr_ok (c : tcase) : bool :=
  (* observation 9: a scenario outside the model's domain (e.g. a stage file that is itself a tracked
     artifact: the model keeps stage files apart from the workspace tree); only the executable
     statements are evaluated on it *)
  if existsb (N.eqb 9) (t_obs c) then true else
  let '(w', ok, out) := step_checked hexdigest (t_sems c) (t_pre c) (t_cmd c) in
  match t_cmd c with
  | CPush _ _ | CFetch _ _ =>
    (* only the traversal is modelled here: where it fails (cycle, unknown stage, empty index)
       dud must fail; the transfer itself is the remote family's business *)
    if ok then true else negb (t_ok c)
  | _ =>
    Bool.eqb ok (t_ok c) &&
    (if ok then world_eqb w' (t_post c) && output_eqb out (t_out c) else true)
  end.

Definition verdict (c : tcase) : N :=
  (if corr_ok c then 0 else 1) + (if spec_ok c then 0 else 2).

Definition run_sys (cs : list tcase) : list (N * N * list N) :=
  filter (fun p => negb (snd (fst p) =? 0)) (map (fun c => (t_id c, verdict c, spec_fails c)) cs).

(* debugging aid for replays: what differs *)
Definition diff (c : tcase) : list N :=
  let '(w', ok, out) := step_checked hexdigest (t_sems c) (t_pre c) (t_cmd c) in
  (if Bool.eqb ok (t_ok c) then [] else [1]) ++
  (if node_eqb (w_root w') (w_root (t_post c)) then [] else [2]) ++
  (if cache_eqb (w_cache w') (w_cache (t_post c)) then [] else [3]) ++
  (if stages_eqb (w_stages w') (w_stages (t_post c)) then [] else [4]) ++
  (if list_eqb beqb (w_index w') (w_index (t_post c)) then [] else [5]) ++
  (if output_eqb out (t_out c) then [] else [6]).

(* C15: `dud init`.  [i_pre]/[i_post]: the (outer) project before and after - index, stage files,
   workspace, cache - which init never touches; [i_cfg_changed]: any file of the outer .dud changed;
   [i_mpre]/[i_mpost]: the .dud of the directory init was RUN in (the project's own for a re-run from
   the root; a sub-directory's - absent before - when run from a sub-directory).
   correspondence: Model/Init.init_cmd on the observed metadata gives the observed metadata and
   exit status (the two configuration texts are the model's parameters: taken from what was written);
   statements: the outer project is untouched; a freshly written configuration sets nothing. *)
Record icase := mkIC { i_id : N; i_pre : world; i_ok : bool; i_post : world; i_cfg_changed : bool;
                       i_mpre : Init.meta; i_mpost : Init.meta }.
Definition verdict_init (c : icase) : N :=
  let cfg := match Init.m_config (i_mpost c) with Some b => b | None => [] end in
  let rcl := match Init.m_rclone (i_mpost c) with Some b => b | None => [] end in
  let '(m', ok) := Init.init_cmd cfg rcl (i_mpre c) in
  let corr := Init.meta_eqb m' (i_mpost c) && Bool.eqb ok (i_ok c) in
  let spec := world_eqb (i_pre c) (i_post c) && negb (i_cfg_changed c) &&
              (if i_ok c then Init.comment_only cfg && Init.comment_only rcl else true) in
  (if corr then 0 else 1) + (if spec then 0 else 2).
Definition run_init (cs : list icase) : list (N * N) :=
  filter (fun p => negb (snd p =? 0)) (map (fun c => (i_id c, verdict_init c)) cs).
