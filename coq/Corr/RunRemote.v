(* Correspondence runner for push / fetch (C11). *)
From Coq Require Import NArith List Bool.
From DudV Require Import Base.Bytes Base.Blake3 Base.Json Model.Fs Model.Cache Model.Stage Model.Index Model.System Model.Remote Corr.RunSys.
Import ListNotations.
Local Open Scope N_scope.

Record rcase := mkR {
  r_id : N;
  r_w : world;                 (* project before the command *)
  r_remote : cache;            (* remote store before *)
  r_push : bool;               (* push or fetch *)
  r_targets : list bytes;
  r_single : bool;
  r_ok : bool;
  r_post_cache : cache;        (* local cache after *)
  r_post_remote : cache;       (* remote after *)
  r_specs : list N }.

Definition targets_outputs (w : world) (targets : list bytes) (single : bool) : list artifact :=
  match load_index (w_index w) (w_stages w) [] with
  | Some idx =>
    let recursive := match targets with [] => true | _ => negb single end in
    match visited idx recursive (all_or targets idx) with
    | Ok sps => flat_map (stage_outputs idx) sps
    | Err => []
    end
  | None => []
  end.

(* data equal, modes ignored: the remote's modes are rclone's business except for the fix-up *)
Definition data_in (c : cache) (d : bytes) (b : bytes) : bool :=
  match alookup d c with Some o => beqb (o_data o) b | None => false end.

Definition spec_r (c : rcase) : list (N * bool) :=
  let outs := targets_outputs (r_w c) (r_targets c) (r_single c) in
  let local := w_cache (r_w c) in
  [ (* 30: push ok => the remote holds every object reachable from the pushed outputs *)
    (30, if r_push c && r_ok c
         then forallb (fun a => forallb (fun d => match alookup d local with
                                                  | Some o => data_in (r_post_remote c) d (o_data o)
                                                  | None => false end) (reach 64 a local)) outs
         else true);
    (* 31: push fails rather than succeed when a reachable object is absent locally *)
    (31, if r_push c
         then (if forallb (fun a => forallb (fun d => in_cache local d) (reach 64 a local)) outs
               then true else negb (r_ok c))
         else true);
    (* 32: fetch ok => every object reachable (through the manifests now in the local cache) is
       present with the remote's / previous bytes, and objects that arrived are read-only *)
    (32, if negb (r_push c) && r_ok c
         then forallb (fun a => forallb (fun d => in_cache (r_post_cache c) d) (reach 64 a (r_post_cache c))) outs &&
              forallb (fun kv => match alookup (fst kv) local with
                                 | Some _ => true
                                 | None => (o_mode (snd kv) =? 292) &&
                                           data_in (r_remote c) (fst kv) (o_data (snd kv))
                                 end) (r_post_cache c)
         else true);
    (* 33: nothing already in the local cache / on the remote changed or disappeared *)
    (33, forallb (fun kv => data_in (r_post_cache c) (fst kv) (o_data (snd kv))) local &&
         forallb (fun kv => data_in (r_post_remote c) (fst kv) (o_data (snd kv))) (r_remote c));
    (* 34: must succeed *)
    (34, r_ok c);
    (* 35: push leaves the local cache alone, fetch leaves the remote alone *)
    (35, if r_push c then cache_eqb local (r_post_cache c) else cache_eqb (r_remote c) (r_post_remote c));
    (* 36: whatever the outcome, every object of the local cache is read-only afterwards (also the ones
       a failed transfer brought in) *)
    (36, forallb (fun kv => (o_mode (snd kv) =? cache_perms)%N) (r_post_cache c));
    (* 37: must fail *)
    (37, negb (r_ok c)) ].

Definition r_fails (c : rcase) : list N :=
  map fst (filter (fun e => existsb (N.eqb (fst e)) (r_specs c) && negb (snd e)) (spec_r c)).

Definition data_eqb (a b : cache) : bool :=
  list_eqb (fun x y => beqb (fst x) (fst y) && beqb (o_data (snd x)) (o_data (snd y))) a b.

Definition corr_r (c : rcase) : bool :=
  if r_push c then
    match rstep_push (r_w c) (r_remote c) (r_targets c) (r_single c) with
    | Ok rem => r_ok c && data_eqb rem (r_post_remote c)
    | Err => negb (r_ok c)
    end
  else
    match rstep_fetch (r_w c) (r_remote c) (r_targets c) (r_single c) with
    | Ok loc => r_ok c && cache_eqb loc (r_post_cache c)
    | Err => negb (r_ok c)
    end.

Definition run_remote (cs : list rcase) : list (N * N * list N) :=
  filter (fun p => negb (snd (fst p) =? 0))
         (map (fun c => (r_id c, (if corr_r c then 0 else 1) + (match r_fails c with [] => 0 | _ => 2 end), r_fails c)) cs).
