(* C16 - An artifact's checksum depends only on its path and content.
   Full statement (properties.jsonl): the checksum dud records for a file or directory artifact
   is a function of the artifact's path and content tree alone: the same under link or copy
   strategy, any cache location, any directory listing order, whether committed from scratch or
   incrementally on top of any earlier committed version, and in any other project; different
   content trees get different checksums; identical file contents share one cache object.
   Proved over Model/Cache.v: the recorded checksum equals [merkle path norec (logical c n)], a
   pure recursive function that mentions neither the strategy nor the cache nor the old manifest;
   [merkle] is injective on plain trees of one kind; listing order does not matter because
   enc_manifest sorts.  Premises found necessary by machine-checked counterexamples
   (Proofs/CommitProofs.v cex_merkle_link, cex_merkle_blob): links in the tree resolve, and no FILE of the tree has
   bytes that decode as a directory manifest with flagged or directory entries ([ctree]: such a
   blob can masquerade as an old manifest of a sibling directory). *)
From Coq Require Import NArith List Bool.
From DudV Require Import Base.Bytes Model.Fs Model.Cache Proofs.CacheDefs Proofs.CommitProofs Proofs.StatusProofs Proofs.ManifestRT.
Import ListNotations.

Theorem C16_function :
  forall (H : bytes -> bytes), H_inj H -> H_text H -> forall a n c st n' c' a',
    cache_ok H c -> man_plain c -> ctree c n -> wf_text (a_path a) ->
    commit_node H a n c st = Ok (n', c', a') ->
    merkle H (a_path a) (a_norec a) (logical c n) = Some (a_cs a').
Proof. exact commit_merkle_final. Qed.
Print Assumptions C16_function.

(* skip-cache files and plain inputs: the checksum is H of the bytes, nothing is stored *)
Theorem C16_skip :
  forall (H : bytes -> bytes) a b c st n' c' a',
    a_isdir a = false -> a_skip a = true -> commit_node H a (File b) c st = Ok (n', c', a') ->
    n' = File b /\ c' = c /\ a_cs a' = H b.
Proof. exact commit_skip. Qed.
Print Assumptions C16_skip.

Theorem C16_injective :
  forall (H : bytes -> bytes), H_inj H -> H_text H -> forall p nr n1 n2 d,
    plain n1 -> plain n2 -> is_dir n1 = is_dir n2 -> wf_text p ->
    merkle H p nr n1 = Some d -> merkle H p nr n2 = Some d ->
    tracked_view (mkArt [] p true nr false) n1 = tracked_view (mkArt [] p true nr false) n2.
Proof. exact merkle_inj_nocodec. Qed.
Print Assumptions C16_injective.

(* directory listing order is immaterial: the manifest encoder sorts *)
Theorem C16_listing_order :
  forall p l1 l2, NoDup (map fst l1) -> Permutation.Permutation l1 l2 ->
    enc_manifest (mkMan p l1) = enc_manifest (mkMan p l2).
Proof. exact enc_manifest_perm. Qed.
Print Assumptions C16_listing_order.

(* identical contents share one object: the object key is H of the bytes *)
Theorem C16_dedup :
  forall (H : bytes -> bytes), H_inj H -> forall a n c st n' c' a',
    cache_ok H c -> commit_node H a n c st = Ok (n', c', a') -> cache_ok H c' /\ cache_le c c'.
Proof. exact commit_cache_ok. Qed.
Print Assumptions C16_dedup.
