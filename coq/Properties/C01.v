(* C01 - Commit then checkout reproduces the tracked tree byte-for-byte.
   Full statement (properties.jsonl): for any tree of regular files and directories tracked as a
   stage output, `dud commit` succeeds and a following `dud checkout` into a workspace where the
   artifact is absent (same project, moved project, or a clone holding only stage files and
   cache) recreates exactly the same relative paths, entry types and file bytes, whichever of
   link/copy is used on either side, wherever the cache lives and from whichever directory dud is
   invoked; commit itself leaves the logical content of the workspace (links followed) unchanged;
   only for entry names it cannot represent (not valid UTF-8) may commit fail, and then it must
   fail rather than record something else.
   Proved over Model/Cache.v (commit_node, checkout_node; the manifest codec is the real JSON
   encoder/decoder of Base/Json*.v, round trip proved in Proofs/ManifestRT.v) for every plain
   tree with valid-UTF-8 entry names, every artifact kind (file / directory / non-recursive
   directory through [tracked_view]), both strategies on both sides, every cache satisfying the
   invariants (which hold for the empty cache and are preserved by commit).  The target
   workspaces differ only in where the cache directory and project root are: the model is
   independent of both (cache keyed by digest, artifact addressed relative to the root); the path
   arithmetic (argument re-basing, relative link text) is exercised by the correspondence runs
   (family tree: same / moved / clone x cache in-project, relative, absolute, other filesystem
   x invocation directory).
   Premises found necessary by machine-checked counterexamples: no FILE of the tree has bytes
   that decode as a directory manifest with flagged entries ([benign] / [tame]); no dangling
   directory references in the cache ([man_present]). *)
From Coq Require Import NArith List Bool.
From DudV Require Import Base.Bytes Model.Fs Model.Cache Proofs.CacheDefs Proofs.CommitProofs Proofs.CheckoutProofs Proofs.Glue.
Import ListNotations.

Theorem C01_roundtrip :
  forall (H : bytes -> bytes), H_inj H -> H_has H -> H_text H ->
    forall a n c st st' n' c' a',
      plain n -> benign n -> kind_ok a n -> top_art a -> cache_inv H c ->
      commit_node H a n c st = Ok (n', c', a') ->
      exists fuel n2, checkout_node H fuel a' None c' st' = Ok (Some n2) /\
                      logical c' n2 = tracked_view a n.
Proof. exact roundtrip_benign_closed. Qed.
Print Assumptions C01_roundtrip.

Theorem C01_commit_ok :
  forall (H : bytes -> bytes), H_inj H -> H_has H -> H_text H ->
    forall a n c st,
      ctree c n -> kind_ok a n -> wf_text (a_path a) ->
      cache_inv H c -> man_present c -> art_hist_ok c a ->
      exists n' c' a', commit_node H a n c st = Ok (n', c', a').
Proof. exact commit_ok_final. Qed.
Print Assumptions C01_commit_ok.

(* plain trees without masquerading blobs are in the domain of C01_commit_ok *)
Theorem C01_plain_in_domain : forall c n, plain n -> tame n -> ctree c n.
Proof. exact plain_tame_ctree. Qed.
Print Assumptions C01_plain_in_domain.

Theorem C01_commit_keeps_logical :
  forall (H : bytes -> bytes), H_inj H -> forall a n c st n' c' a',
    cache_ok H c -> plain n -> commit_node H a n c st = Ok (n', c', a') -> logical c' n' = n.
Proof. exact commit_logical_plain. Qed.
Print Assumptions C01_commit_keeps_logical.

(* also for workspaces that already contain (resolving) links into the cache *)
Theorem C01_commit_keeps_logical_links :
  forall (H : bytes -> bytes), H_inj H -> forall a n c st n' c' a',
    cache_ok H c -> resolved c n -> commit_node H a n c st = Ok (n', c', a') ->
    logical c' n' = logical c n /\ resolved c' n'.
Proof. exact commit_logical_resolved. Qed.
Print Assumptions C01_commit_keeps_logical_links.

(* the invariants are preserved by commit and hold for the empty cache of `dud init` *)
Theorem C01_invariants_preserved :
  forall (H : bytes -> bytes), H_inj H -> H_has H -> H_text H ->
    forall a n c st n' c' a',
      ctree c n -> wf_text (a_path a) -> cache_inv H c -> man_present c ->
      commit_node H a n c st = Ok (n', c', a') ->
      cache_inv H c' /\ man_present c' /\ art_hist_ok c' a' /\ ctree c' n' /\ cache_le c c'.
Proof. exact commit_inv_final. Qed.
Print Assumptions C01_invariants_preserved.

Theorem C01_invariants_initial :
  forall (H : bytes -> bytes), cache_inv H [] /\ man_present [] /\ forall a, art_hist_ok [] a.
Proof. exact invariants_initial. Qed.
Print Assumptions C01_invariants_initial.

(* an entry name that is not valid UTF-8 makes the commit of its directory fail: nothing is
   recorded.  (commit_node returns Err; stated on the one-level case, the recursion propagates
   Err by definition.) *)
Theorem C01_nonutf8_fails :
  forall (H : bytes -> bytes) a name ch rest c st,
    a_isdir a = true -> utf8_name name = false -> (a_norec a && is_dir ch = false) ->
    old_contents a c <> Err ->
    commit_node H a (Dir ((name, ch) :: rest)) c st = Err.
Proof. exact nonutf8_fails. Qed.
Print Assumptions C01_nonutf8_fails.
