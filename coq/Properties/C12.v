(* C12 - One dud at a time per project, and the lock never outlives the command.
   Full statement (properties.jsonl): of any number of dud commands started concurrently in one
   project, at most one at a time gets past the project lock; the others exit non-zero without
   changing anything and without removing the holder's lock; every command that exits on its own
   - successfully or with any error, from the root or any sub-directory - leaves the project
   unlocked.  Proved over the transition system Model/Lock.v (any number of processes, any
   subcommand descriptors, any interleaving) for the repaired release rule (the path that was
   locked is the path that is removed); the pre-repair rule is refuted by a witness.
   proof, partial: atomicity of the O_CREAT|O_EXCL open and OS scheduling are assumptions; the
   descriptor table is tied to src/cmd by the correspondence check (family lock). *)
From Coq Require Import List Bool Arith.
From Coq Require Import NArith.
From DudV Require Import Model.Lock Proofs.LockProofs Corr.RunLock.
Import ListNotations.

Theorem C12_mutex :
  forall g, reachable ReleaseSamePath g ->
    (lockfile g = true <-> exists i, holds g i /\ forall j, holds g j -> j = i) /\
    (forall i j, holds g i -> holds g j -> i = j) /\
    (forall i, holder g = Some i <-> holds g i) /\
    (forall i p, nth_error (procs g) i = Some p ->
       (p_pc p = Acquired -> p_locked p = true) /\
       (p_pc p = Body -> locks (p_desc p) = true -> p_locked p = true)) /\
    (forall i j p q, nth_error (procs g) i = Some p -> nth_error (procs g) j = Some q ->
       past_lock p -> past_lock q -> i = j).
Proof. exact C12_mutex. Qed.
Print Assumptions C12_mutex.

(* a refused process never touches the lock file, leaves every other process alone, exits 1 *)
Theorem C12_refused_clean :
  forall g g' i p, reachable ReleaseSamePath g -> nth_error (procs g) i = Some p ->
    p_refused p = true -> steps_of ReleaseSamePath i g g' ->
    lockfile g' = lockfile g /\ holder g' = holder g /\
    (forall j, j <> i -> nth_error (procs g') j = nth_error (procs g) j) /\
    exists p', nth_error (procs g') i = Some p' /\ p_refused p' = true /\
      p_locked p' = false /\ (p_pc p' = Failing \/ p_pc p' = Exited 1).
Proof. exact C12_refused_clean_trace. Qed.
Print Assumptions C12_refused_clean.

Theorem C12_released :
  forall cfg g, steps ReleaseSamePath (init cfg) g ->
    (forall i p, nth_error (procs g) i = Some p -> is_exited p = true ->
       p_locked p = false /\ ~ holds g i /\ holder g <> Some i /\
       exists c, p_pc p = Exited c /\ c <= 1) /\
    ((forall i p, nth_error (procs g) i = Some p -> is_exited p = true) ->
       lockfile g = false /\ holder g = None).
Proof. exact C12_released. Qed.
Print Assumptions C12_released.

(* no schedule gets stuck and every schedule is finite; when nothing can move any more every
   process has exited and the project is unlocked *)
Theorem C12_quiescent_unlocked :
  forall cfg g, steps ReleaseSamePath (init cfg) g ->
    (forall l i, step_proc ReleaseSamePath l g i = None) ->
    (forall i p, nth_error (procs g) i = Some p -> is_exited p = true) /\
    lockfile g = false /\ holder g = None.
Proof. exact C12_quiescent_unlocked. Qed.
Print Assumptions C12_quiescent_unlocked.

Theorem C12_bounded :
  forall k cfg sch g, run k (init cfg) sch = Some g -> length sch <= 19 * length cfg.
Proof. exact C12_bounded. Qed.
Print Assumptions C12_bounded.

(* the defect repaired by "fix: unlock the lock file that was locked": with the cwd-relative
   release, `dud config get` from a sub-directory exits leaving the project locked *)
Theorem C12_prerepair_refuted :
  exists g p, reachable ReleaseCwdRelative g /\ procs g = [p] /\
    p_desc p = mkDesc true false false true /\ p_cwd_root p = false /\
    p_pc p = Exited 1 /\ p_locked p = false /\
    (forall i q, nth_error (procs g) i = Some q -> is_exited q = true) /\
    lockfile g = true.
Proof. exact C12_prerepair_refuted. Qed.
Print Assumptions C12_prerepair_refuted.

(* one process running alone: whatever the subcommand, the starting directory and the outcome,
   the work of the subcommand (event 2) happens only between the creation (0) and the removal (1)
   of the lock file, the lock is never taken twice or released when not held, and it is not held
   at the end.  trace_ok is the statement the check evaluates on the ptrace log of the real
   binary (family lock, shard ltrace). *)
Theorem C12_work_while_held :
  forall d cwd_root fails, trace_ok false (model_trace d cwd_root fails) = true.
Proof. exact model_trace_ok. Qed.
Print Assumptions C12_work_while_held.
