(* C17 - Stage files round-trip and the definition checksum tracks exactly the definition.
   Full statement (properties.jsonl): loading a stage file normalises it (command trimmed, paths
   cleaned); writing any loaded or normal-form stage to a file and loading it again yields
   exactly the same command, working directory, inputs and outputs with the same flags and
   checksums; the stage-definition checksum is unchanged by artifact checksums and by map
   ordering, and changes whenever the command, working directory, or the set, paths or flags of
   inputs/outputs change.
   Proved over Model/StageFile.v (from_file, to_file_format, trim_space) and Model/Index.v
   (def_json, def_checksum) with the real Go JSON encoder model.
   proof, partial: the YAML text layer (yaml.v2) is a parameter (yenc, ydec) with the round-trip
   hypothesis on the value written; the correspondence check hammers exactly that hypothesis
   (family stagefile) - it is known to fail for an artifact path equal to "<<" (known finding
   D12, a yaml.v2 encoder defect). *)
From Coq Require Import NArith List Bool Permutation.
From DudV Require Import Base.Bytes Base.Json Base.GoPath Model.Fs Model.Cache Model.Stage Model.Index Model.StageFile Model.System Proofs.StageFileProofs Proofs.PipelineProofs Proofs.DefStatusProofs.
Import ListNotations.

Theorem C17_normalise : forall y, nf_stage (from_file y) = true.
Proof. exact C17_normalise. Qed.
Print Assumptions C17_normalise.

Theorem C17_roundtrip :
  forall (yenc : ystage -> bytes) (ydec : bytes -> option ystage) s,
    ydec (yenc (to_file_format s)) = Some (to_file_format s) ->
    nf_stage s = true ->
    option_map from_file (ydec (yenc (to_file_format s))) = Some s.
Proof. exact C17_roundtrip. Qed.
Print Assumptions C17_roundtrip.

(* any LOADED stage written back and loaded again is itself *)
Theorem C17_roundtrip_loaded :
  forall (yenc : ystage -> bytes) (ydec : bytes -> option ystage) y,
    (forall v, ydec (yenc v) = Some v) ->
    option_map from_file (ydec (yenc (to_file_format (from_file y)))) = Some (from_file y).
Proof. exact C17_roundtrip_loaded. Qed.
Print Assumptions C17_roundtrip_loaded.

Theorem C17_def_ignores_checksums :
  forall s cs fi fo,
    def_json (mkStage cs (s_cmd s) (s_wd s)
                      (map (fun a => set_cs a (fi a)) (s_inputs s))
                      (map (fun a => set_cs a (fo a)) (s_outputs s))) = def_json s.
Proof. exact C17_def_ignores_checksums. Qed.
Print Assumptions C17_def_ignores_checksums.

Theorem C17_def_ignores_order :
  forall s1 s2, s_cmd s1 = s_cmd s2 -> s_wd s1 = s_wd s2 ->
    NoDup (map a_path (s_inputs s1)) -> NoDup (map a_path (s_outputs s1)) ->
    Permutation (map blank (s_inputs s1)) (map blank (s_inputs s2)) ->
    Permutation (map blank (s_outputs s1)) (map blank (s_outputs s2)) ->
    def_json s1 = def_json s2.
Proof. exact C17_def_perm. Qed.
Print Assumptions C17_def_ignores_order.

(* the checksum changes exactly when the definition (command, working dir, artifact paths and
   flags) changes *)
Theorem C17_def_checksum :
  forall (H : bytes -> bytes) s1 s2, (forall a b, H a = H b -> a = b) -> ok_stage s1 -> ok_stage s2 ->
    (def_checksum H s1 = def_checksum H s2 <-> def_key s1 = def_key s2).
Proof. exact C17_def_checksum. Qed.
Print Assumptions C17_def_checksum.

Theorem C17_def_injective_nf :
  forall s1 s2, ok_stage s1 -> ok_stage s2 ->
    strictly_sorted (s_inputs s1) = true -> strictly_sorted (s_inputs s2) = true ->
    strictly_sorted (s_outputs s1) = true -> strictly_sorted (s_outputs s2) = true ->
    (def_json s1 = def_json s2 <-> def_view s1 = def_view s2).
Proof. exact C17_def_injective_nf. Qed.
Print Assumptions C17_def_injective_nf.

(* "... so status shows the definition up-to-date right after commit and modified after any such
   edit", over the whole-program model (System.step re-loads the stage files the commit wrote).
   [ss_has]: the stage has a recorded definition checksum; [ss_match]: status calls the definition
   up to date.  Premise of the first: H never returns the empty string (a recorded empty checksum
   reads as "not committed": DefStatusProofs.Demo.empty_hash_never_up_to_date). *)
Theorem C17_status_after_commit :
  forall (H : bytes -> bytes) sems w idx ts copy w' o1 ts2 w'' out sp ss,
    (forall x, H x <> []) ->
    w_lock w = false -> load_index (w_index w) (w_stages w) [] = Some idx ->
    step H sems w (CCommit ts copy) = (w', true, o1) ->
    In sp (all_or ts idx) ->
    step H sems w' (CStatus ts2) = (w'', true, OStatus out) ->
    alookup sp out = Some ss ->
    ss_has ss = true /\ ss_match ss = true.
Proof. exact step_status_after_commit_definition_up_to_date. Qed.
Print Assumptions C17_status_after_commit.

(* stg1 as a commit left it; stg2 = the same records under an edited definition (command, working
   directory, or the set, paths or flags of inputs/outputs: def_key differs) *)
Theorem C17_status_after_definition_edit :
  forall (H : bytes -> bytes) sems w ts w' out sp ss stg1 stg2,
    (forall a b, H a = H b -> a = b) -> ok_stage stg1 -> ok_stage stg2 ->
    s_cs stg1 = def_checksum H stg1 -> s_cs stg2 = s_cs stg1 -> def_key stg2 <> def_key stg1 ->
    alookup sp (w_stages w) = Some (Some stg2) ->
    step H sems w (CStatus ts) = (w', true, OStatus out) -> alookup sp out = Some ss ->
    ss_match ss = false.
Proof. exact step_status_after_definition_edit_modified. Qed.
Print Assumptions C17_status_after_definition_edit.

(* what status reports about the definition, exactly *)
Theorem C17_status_definition_iff :
  forall (H : bytes -> bytes) sems w ts w' out sp ss,
    step H sems w (CStatus ts) = (w', true, OStatus out) -> alookup sp out = Some ss ->
    exists stg, alookup sp (w_stages w) = Some (Some stg) /\
      (ss_has ss = true <-> s_cs stg <> []) /\
      (ss_match ss = true <-> s_cs stg <> [] /\ def_checksum H stg = s_cs stg).
Proof. exact step_status_def_match_iff. Qed.
Print Assumptions C17_status_definition_iff.

(* a commit never changes a definition: every stage of the index keeps its command, working
   directory, and the paths and flags of its inputs and outputs (inputs distinct and skip-cache, as
   every loaded stage has them: DefStatusProofs.nf_stage_wf_in) *)
Theorem C17_commit_preserves_definitions :
  forall (H : bytes -> bytes) strat fuel ts idx root c idx' root' c' done,
    commit_targets H strat fuel ts (Ok (mkI idx root c, [])) = Ok (mkI idx' root' c', done) ->
    forall sp stg, alookup sp idx = Some stg -> wf_in stg ->
      exists stg', alookup sp idx' = Some stg' /\ def_view stg' = def_view stg /\ def_key stg' = def_key stg.
Proof. exact commit_preserves_definitions. Qed.
Print Assumptions C17_commit_preserves_definitions.
