(* C11 - Push then fetch transfers everything checkout needs.
   Full statement (properties.jsonl): after `dud push` succeeds the remote holds every cache
   object reachable from the pushed stages' outputs - files, directory manifests and everything
   nested in them; after `dud fetch` succeeds into a cache missing any subset of those objects,
   `dud checkout` reproduces the committed trees byte-for-byte and the fetched objects are
   read-only like committed ones; push fails rather than succeed when a reachable object is
   absent locally.
   Proved over Model/Remote.v (gather / push_arts / fetch_arts on the repaired tree: children are
   merged by checksum AND kind) for every local cache, remote, artifact list and fuel.
   proof, partial: rclone is the function [transfer] (copies exactly the listed existing objects,
   never overwrites, fails on a missing source); the stand-in harness/fakebin/rclone implements
   that contract, real rclone is assumed to.
   The pre-repair merge (keyed by checksum only) is refuted by a machine-checked witness
   (Proofs/RemoteProofs.v FetchCex), reproduced on the real binary and repaired ("fix: fetch keeps
   directory children apart from files with the same checksum").
   [no_slash]: checksums of file children contain no '/' (true of hex digests). *)
From Coq Require Import NArith List Bool.
From DudV Require Import Base.Bytes Base.Json Model.Fs Model.Cache Model.Stage Model.Remote Proofs.CacheDefs Proofs.RemoteProofs Proofs.FetchRetryProofs.
Import ListNotations.

Theorem C11_push_closure :
  forall (H : bytes -> bytes) arts c r r',
    H_inj H -> cache_ok H c -> cache_ok H r ->
    push_arts arts c r = Ok r' ->
    (forall a d, In a arts -> In d (reach 64 a c) ->
       exists o o', cget c d = Some o /\ cget r' d = Some o' /\
                    o_data o' = o_data o /\ o_mode o' = cache_perms) /\
    cache_le r r' /\ cache_ok H r'.
Proof. exact C11_push_closure_ok. Qed.
Print Assumptions C11_push_closure.

Theorem C11_push_fails_on_missing :
  forall arts c r a d,
    In a arts -> In d (reach 64 a c) -> cget c d = None -> push_arts arts c r = Err.
Proof. exact C11_push_fails_on_missing. Qed.
Print Assumptions C11_push_fails_on_missing.

(* push succeeds exactly when everything reachable is present and decodable *)
Theorem C11_push_ok_iff :
  forall arts c r,
    (exists r', push_arts arts c r = Ok r') <-> Forall (fun a => complete 64 a c) arts.
Proof. exact C11_push_ok_iff. Qed.
Print Assumptions C11_push_ok_iff.

Theorem C11_fetch_complete :
  forall fuel arts c r c',
    fetch_arts fuel arts c r = Ok c' ->
    cache_le c c' /\
    (forall d o, cget c d = Some o -> cget c' d = Some o) /\
    (forall d o', cget c d = None -> cget c' d = Some o' ->
       o_mode o' = cache_perms /\ exists orr, cget r d = Some orr /\ o_data o' = o_data orr) /\
    (man_plain c' -> no_slash c' arts ->
     forall a, In a arts -> a_skip a = false ->
     forall fuel' d, In d (reach fuel' a c') -> exists o, cget c' d = Some o).
Proof. exact C11_fetch_complete. Qed.
Print Assumptions C11_fetch_complete.

(* push, lose any subset of the local cache, fetch: every object is read-only and checkout
   behaves exactly as from the cache that was pushed (so C01 applies) *)
Theorem C11_then_checkout :
  forall (H : bytes -> bytes) a c0 r r' c c' fuel,
    H_inj H -> cache_ok H c0 -> cache_ok H r -> man_plain c0 -> a_skip a = false ->
    no_slash c0 [a] ->
    (forall d o, cget c d = Some o -> cget c0 d = Some o) ->
    push_arts [a] c0 r = Ok r' ->
    fetch_arts fuel [a] c r' = Ok c' ->
    (forall d o', cget c' d = Some o' -> o_mode o' = cache_perms) /\
    (forall fuel' slot st, checkout_node H fuel' a slot c' st = checkout_node H fuel' a slot c0 st).
Proof. exact C11_push_fetch_checkout. Qed.
Print Assumptions C11_then_checkout.

(* --single-stage: exactly the requested stages *)
Theorem C11_scope :
  forall idx ts sps,
    visited idx false ts = Ok sps ->
    NoDup sps /\ subseq sps ts /\ (forall t, In t ts -> In t sps) /\
    (forall t, In t sps -> exists s, alookup t idx = Some s).
Proof. exact C11_scope_single. Qed.
Print Assumptions C11_scope.

(* a fetch that rclone aborts part-way (any number of times, any cut, any file list), retried
   until it succeeds: every object of the local cache is read-only, nothing that was there is
   lost.  [interrupted_copy n files] = the first n listed objects arrive (0644), then the
   permission fix-up runs on the whole list - the repaired remoteCopy (D25). *)
Theorem C11_fetch_retry :
  forall fuel arts (l : list (nat * list bytes)) c remote c',
    all_ro c ->
    fetch_arts fuel arts (interruptions l remote c) remote = Ok c' ->
    all_ro c' /\ cache_le c c'.
Proof. exact fetch_retry_all_ro. Qed.
Print Assumptions C11_fetch_retry.

Theorem C11_fetch_retry_cache_ok :
  forall H fuel arts (l : list (nat * list bytes)) c remote c',
    cache_ok H c -> cache_ok H remote ->
    fetch_arts fuel arts (interruptions l remote c) remote = Ok c' -> cache_ok H c' /\ cache_le c c'.
Proof. exact fetch_retry_cache_ok. Qed.
Print Assumptions C11_fetch_retry_cache_ok.

(* the behaviour before the repair (no fix-up when rclone fails): the object that arrived before
   the failure stays 0644 after the successful retry *)
Theorem C11_fetch_retry_without_fixup_refuted :
  exists (fuel : nat) (arts : list artifact) (n : nat) (files : list bytes) (c remote c' : cache),
    all_ro c /\ all_ro remote /\
    fetch_arts fuel arts (interrupted_copy_old n files remote c) remote = Ok c' /\
    (exists d o, cget c' d = Some o /\ o_mode o = transfer_mode) /\
    ~ all_ro c'.
Proof. exact fetch_retry_old_refuted. Qed.
Print Assumptions C11_fetch_retry_without_fixup_refuted.
