(* C13 - Directory operations match the sequential result on every schedule, never hang.
   Full statement (properties.jsonl): for any directory tree, worker-pool sizing and goroutine
   schedule, commit, checkout and status of a directory artifact terminate and yield exactly the
   result of processing the entries one at a time; when an entry fails the operation still
   terminates with an error, and no goroutine outlives the call or races on shared data.
   Proved over the labelled transition system Model/Sched.v (one directory level: feeder,
   collector, spawner, workers holding dedicated / shared tokens, errgroup cancellation, the
   short-circuit sentinel; three variants Commit / Checkout / Status) for every number of entries
   N, every shared capacity S >= 0, every dedicated capacity D >= 1 and EVERY step sequence
   (= schedule, with an external cancellation and failing entries at any point), and lifted to
   trees by structural induction ([exec]).
   proof, partial: the counter abstraction carries no data, so "the same checksums / tree /
   status as the sequential run" is carried by the big-step functions of Model/Cache.v and
   observed by the correspondence check under pool sizes {0,1,2,64} x {1,2}; data races and
   goroutine leaks are observed (race detector, goroutine counts), not proved. *)
From Coq Require Import List Bool Arith.
From DudV Require Import Model.Sched Proofs.SchedProofs.
Import ListNotations.

Theorem C13_flat_terminates :
  forall N D S0 v,
    (forall l c c', step N D S0 v l c c' -> measure N c' < measure N c) /\
    (forall tr c, steps N D S0 v (init N v) tr c -> length tr + measure N c <= measure N (init N v)) /\
    (forall tr c, steps N D S0 v (init N v) tr c -> length tr <= 5 * N + 4).
Proof. exact flat_terminates. Qed.
Print Assumptions C13_flat_terminates.

(* no deadlock even if the shared pool is never available and nobody cancels *)
Theorem C13_flat_progress :
  forall N D S0 v c, 1 <= D -> reachable N D S0 v c -> ~ final c ->
    exists l c', step N D S0 v l c c' /\ ~ env_label l.
Proof. exact flat_progress. Qed.
Print Assumptions C13_flat_progress.

Theorem C13_flat_can_finish :
  forall N D S0 v c, 1 <= D -> reachable N D S0 v c ->
    exists tr c', steps N D S0 v c tr c' /\ final c' /\ Forall internal tr.
Proof. exact flat_can_finish. Qed.
Print Assumptions C13_flat_can_finish.

(* the deadlock the code comment warns about: without a dedicated worker a level can starve *)
Theorem C13_stuck_without_dedicated :
  forall N D S0 v, D = 0 -> 1 <= N ->
    exists c, reachable N D S0 v c /\ ~ final c /\ (forall l c', step N D S0 v l c c' -> env_label l).
Proof. exact flat_stuck_without_dedicated. Qed.
Print Assumptions C13_stuck_without_dedicated.

(* every goroutine has returned and every token is back when the call returns *)
Theorem C13_flat_joined :
  forall c, final c ->
    workers c = 0 /\ wlive (wD c) = 0 /\ wlive (wS c) = 0 /\
    fd_done c = true /\ col_done c = true /\ sp_done c = true.
Proof. exact flat_joined. Qed.
Print Assumptions C13_flat_joined.

Theorem C13_flat_tokens :
  forall N D S v c, reachable N D S v c -> wlive (wD c) <= D /\ wlive (wS c) <= S.
Proof. exact flat_tokens. Qed.
Print Assumptions C13_flat_tokens.

(* without error every entry was processed exactly once; an error is an entry's own error, the
   parent's cancellation, or (status only) the short-circuit sentinel *)
Theorem C13_flat_result :
  forall N D S0 v c, reachable N D S0 v c -> final c ->
    (err c = None ->
       col c = N /\ q c = 0 /\ nfin c = N /\ dropped c = 0 /\ nfail c = 0 /\ nabort c = 0 /\
       scd c = false /\ (has_collector v = true -> ready c = true)) /\
    (err c = Some EntryError -> 1 <= nfail c) /\
    (err c = Some ParentCancelled -> xc c = true) /\
    (err c = Some ShortCircuit -> v = Status true /\ scd c = true /\ 1 <= col c) /\
    (1 <= nfail c -> err c <> None) /\ (1 <= dropped c -> err c <> None).
Proof. exact flat_result. Qed.
Print Assumptions C13_flat_result.

(* trees: every tree terminates with some result under every pool sizing with D >= 1; a
   top-level call never returns the bare cancellation error; Ok only if every leaf is ok *)
Theorem C13_exec_total :
  forall D S0 v t, 1 <= D -> forall xcin, exists r, exec D S0 v t xcin r.
Proof. exact exec_total. Qed.
Print Assumptions C13_exec_total.

Theorem C13_exec_result_sound :
  forall D S v t xcin r, exec D S v t xcin r ->
    (r = RCancelled -> xcin = true) /\ (r = RFail -> all_ok t = false) /\
    (sc_on v = false -> r = ROk -> all_ok t = true).
Proof. exact exec_result_sound. Qed.
Print Assumptions C13_exec_result_sound.

Theorem C13_exec_top_level :
  forall D S v t r, exec D S v t false r -> r = ROk \/ (r = RFail /\ all_ok t = false).
Proof. exact exec_top_level. Qed.
Print Assumptions C13_exec_top_level.
