(* C04 - A failed commit loses nothing, unlocks, and can simply be retried.
   Full statement (properties.jsonl): when `dud commit` exits with an error - an output is
   missing, a directory holds an entry it cannot store, or a filesystem call fails - no tracked
   data is lost (as in C03), stage files stay well-formed, the project is left unlocked and the
   exit status is non-zero; once the cause is removed, running `dud commit` again succeeds and
   ends in the same state as a commit that never failed.
   Proved over Model/Crash.v on the repaired tree (restoreWorkspaceFile / replaceWithLink): the
   state after a failing call is a cut, or a cut followed by the restoration of the workspace
   file; the workspace entry is NEVER missing after a failed file commit; a retry from any such
   state returns exactly the result of the undisturbed commit (file artifacts: equality; flat
   directories: same node, same recorded checksum, same objects).  The pre-repair sequence is
   refuted by a witness (an absent entry, after which the retry of the directory commit drops
   it).  Unlocking is C12_released; "stage files are written only after the whole traversal
   succeeded" is by construction of System.step (a failed step returns the old world:
   C07_failed_step_unchanged).
   Nested directories of any depth: C04_retry_nested (the retry from any [tree_state] of the tree
   returns the same node, the same recorded artifact and the same objects) under the premise
   [olds_fixed], and C04_retry_nested_inv with no premise on the old manifests under the
   invariants commit preserves on the final cache; the statement with the naive premise "old
   manifests read the same" is refuted by a closed witness (a file whose bytes are a manifest).
   C04_retry_from_restored_cut ties this to the cut semantics of Model/Crash.v: from EVERY cut of a
   nested commit, once the error path has put back the entries that were moved away, the re-run
   returns the undisturbed result (C04_retry_from_cut: the same for cuts in which no entry is
   missing, e.g. every cut of a copy commit or of a commit into a cache on another device).
   proof, partial: system calls are atomic and a failing call has no partial effect; the correspondence
   check injects EIO / ENOSPC / EACCES at EVERY mutating system call of the real binary, then
   retries, and places un-committable entries at every position; a failing call has no partial
   effect (real ENOSPC in the middle of a write may). *)
From Coq Require Import NArith List Bool.
From DudV Require Import Base.Bytes Model.Fs Model.Cache Model.Crash Proofs.CacheDefs Proofs.CommitProofs Proofs.CrashProofs Proofs.NestedRetryProofs Proofs.CutRetryProofs.
From Coq Require Import Relations.
From DudV Require Import Base.Json Base.GoPath Model.Stage Model.Index Proofs.PipelineProofs Proofs.StageLiftProofs.
Import ListNotations.

Theorem C04_fail_is_cut :
  forall (H : bytes -> bytes) st cr b c x,
    In x (file_commit_fail_states H st cr b c) ->
    exists y, In y (file_commit_cuts H st cr b c) /\
              (x = y \/ (fst y = None /\ x = restore_ws H b y)).
Proof. exact C04_fail_is_cut. Qed.
Print Assumptions C04_fail_is_cut.

Theorem C04_entry_never_missing :
  forall (H : bytes -> bytes) st cr b c s c',
    In (s, c') (file_commit_fail_states H st cr b c) -> s <> None.
Proof. exact C04_entry_never_missing. Qed.
Print Assumptions C04_entry_never_missing.

Theorem C04_retry :
  forall (H : bytes -> bytes) st cr a b c s c1,
    a_isdir a = false -> a_skip a = false ->
    In (s, c1) (file_commit_fail_states H st cr b c) ->
    exists n1, s = Some n1 /\
      commit_node H a n1 c1 st = commit_node H a (File b) c st /\
      exists nf cf af, commit_node H a (File b) c st = Ok (nf, cf, af).
Proof. exact C04_retry. Qed.
Print Assumptions C04_retry.

Theorem C04_retry_flat_directory :
  forall (H : bytes -> bytes) st a es es1 c c1 old nf cf af,
    H_inj H -> cache_ok H c -> keyed H c1 -> cache_le c c1 -> cache_le c1 cf ->
    old_contents a c = Ok old -> old_contents a c1 = Ok old ->
    Forall2 (flat_state H st old) es es1 ->
    (forall name b, In (name, LinkC (H b)) es1 -> in_cache c1 (H b) = true) ->
    commit_node H a (Dir es) c st = Ok (nf, cf, af) ->
    exists cf1, commit_node H a (Dir es1) c1 st = Ok (nf, cf1, af) /\
                cache_le cf cf1 /\ cache_le cf1 cf.
Proof. exact C04_retry_dir_flat. Qed.
Print Assumptions C04_retry_flat_directory.

(* a kill (no rollback) followed by a plain re-run: same result whenever the entry is present *)
Theorem C04_rerun_from_cut :
  forall (H : bytes -> bytes) st cr a b c n1 c1,
    a_isdir a = false -> a_skip a = false ->
    In (Some n1, c1) (file_commit_cuts H st cr b c) ->
    exists nf cf af af',
      commit_node H a (File b) c st = Ok (nf, cf, af) /\
      commit_node H a n1 c1 st = Ok (nf, cf, af') /\ a_cs af' = a_cs af.
Proof. exact C04_rerun_from_cut. Qed.
Print Assumptions C04_rerun_from_cut.

(* without the rollback the entry can go missing: the defect that was repaired *)
Theorem C04_norollback_refuted :
  forall (H : bytes -> bytes) b c,
    exists c', In (None, c') (file_commit_fail_states_norollback H Link true b c).
Proof. exact C04_norollback_entry_missing. Qed.
Print Assumptions C04_norollback_refuted.

(* nested directories, any depth, both strategies *)
Theorem C04_retry_nested :
  forall (H : bytes -> bytes) st a n n1 c c1 nf cf af,
    H_inj H -> cache_ok H c -> keyed H c1 -> cache_le c c1 -> cache_le c1 cf ->
    (is_dir n = true -> old_contents a c1 = old_contents a c) ->
    tree_state H st c a n n1 -> olds_fixed c cf a n -> resolved c1 n1 ->
    commit_node H a n c st = Ok (nf, cf, af) ->
    exists cf1, commit_node H a n1 c1 st = Ok (nf, cf1, af) /\
                cache_le cf cf1 /\ cache_le cf1 cf.
Proof. exact C04_retry_nested. Qed.
Print Assumptions C04_retry_nested.

Theorem C04_retry_nested_inv :
  forall (H : bytes -> bytes) st a n n1 c c1 nf cf af,
    H_inj H -> cache_ok H c -> keyed H c1 -> cache_le c c1 -> cache_le c1 cf ->
    man_plain cf -> man_closed cf -> art_hist_ok cf a ->
    tree_state2 H st (a_skip a) (a_norec a) n n1 -> resolved c1 n1 ->
    commit_node H a n c st = Ok (nf, cf, af) ->
    exists cf1, commit_node H a n1 c1 st = Ok (nf, cf1, af) /\
                cache_le cf cf1 /\ cache_le cf1 cf.
Proof. exact C04_retry_nested_inv. Qed.
Print Assumptions C04_retry_nested_inv.

(* from the cut semantics: every state a kill or a failing call can leave (Model/Crash.commit_cut),
   with the entries that were moved away put back by the error path, re-commits to the undisturbed
   result; [ntree]: distinct entry names; [resolved]: the links of the original tree resolve *)
Theorem C04_retry_from_restored_cut :
  forall (H : bytes -> bytes) st cr a n s c c1 nf cf af,
    H_inj H -> cache_ok H c -> resolved c n -> ntree n ->
    man_plain cf -> man_closed cf -> art_hist_ok cf a ->
    commit_cut H st cr a n c (s, c1) ->
    commit_node H a n c st = Ok (nf, cf, af) ->
    exists cf1, commit_node H a (restore_slot n s) c1 st = Ok (nf, cf1, af) /\
                cache_le cf cf1 /\ cache_le cf1 cf.
Proof. exact C04_retry_from_restored_cut. Qed.
Print Assumptions C04_retry_from_restored_cut.

Theorem C04_retry_from_cut :
  forall (H : bytes -> bytes) st cr a n n1 c c1 nf cf af,
    H_inj H -> cache_ok H c -> resolved c n ->
    man_plain cf -> man_closed cf -> art_hist_ok cf a ->
    commit_cut H st cr a n c (Some n1, c1) -> all_present n n1 ->
    commit_node H a n c st = Ok (nf, cf, af) ->
    exists cf1, commit_node H a n1 c1 st = Ok (nf, cf1, af) /\
                cache_le cf cf1 /\ cache_le cf1 cf.
Proof. exact C04_retry_from_cut. Qed.
Print Assumptions C04_retry_from_cut.

(* At the level of the COMMAND: an output that is not there - of any stage in scope, wherever it
   comes among the stage's outputs and the stage among the targets - makes `dud commit` fail
   (System.step then leaves the world as it was: StageLiftProofs.commit_step_failing_output_no_stage_write) *)
Theorem C04_command_missing_output_fails :
  forall (H : bytes -> bytes) st fuel ts idx0 root c t b stg a,
    ksorted (map fst idx0) -> In t ts -> clos_refl_trans bytes (edge idx0) b t ->
    alookup b idx0 = Some stg -> In a (s_outputs stg) -> get root (comps (a_path a)) = None ->
    commit_targets H st fuel ts (Ok (mkI idx0 root c, [])) = Err.
Proof. exact commit_targets_missing_output_fails. Qed.
Print Assumptions C04_command_missing_output_fails.
