(* C06 - Checkout never overwrites or deletes workspace data.
   Full statement (properties.jsonl): `dud checkout` (link or copy) never modifies, truncates,
   replaces or removes any pre-existing workspace entry, with one exception: a link that already
   resolves to the exact cache object being checked out may be replaced by a copy of those same
   bytes; where an existing entry is in the way, checkout exits non-zero and that entry is left
   intact.  Proved over Model/Cache.v for every hash, cache, artifact, strategy, fuel and every
   pre-existing workspace entry.  On failure the model returns no state at all (the function is
   total and returns Err), the "left intact on failure" half is observed by the correspondence
   check (family prestate, spec 4 evaluated on failing runs too). *)
From Coq Require Import NArith List Bool.
From DudV Require Import Base.Bytes Base.Json Model.Fs Model.Cache Proofs.CacheDefs Proofs.CheckoutProofs.
From Coq Require Import Relations.
From DudV Require Import Base.Json Base.GoPath Model.Stage Model.Index Proofs.PipelineProofs Proofs.StageLiftProofs.
Import ListNotations.

(* [preserved c st before after]: unchanged, newly created, a matching link replaced by a copy of
   the very object, or a directory whose entries are each preserved *)
Theorem C06_frame :
  forall (H : bytes -> bytes) fuel a slot c st r,
    checkout_node H fuel a slot c st = Ok r -> preserved c st slot r.
Proof. exact checkout_frame_strong. Qed.
Print Assumptions C06_frame.

Theorem C06_file_frame :
  forall (H : bytes -> bytes) a slot c st r,
    checkout_file H a slot c st = Ok r ->
    r = slot \/ slot = None \/
    (st = Copy /\ exists o, slot = Some (LinkC (a_cs a)) /\ cget c (a_cs a) = Some o /\
                            r = Some (File (o_data o))).
Proof. exact checkout_file_frame. Qed.
Print Assumptions C06_file_frame.

(* an entry in the way makes checkout fail *)
Theorem C06_obstructed_fails :
  forall (H : bytes -> bytes) a c st,
    (forall b, H b <> a_cs a -> checkout_file H a (Some (File b)) c st = Err) /\
    (forall es, checkout_file H a (Some (Dir es)) c st = Err) /\
    checkout_file H a (Some Other) c st = Err /\
    (forall t, checkout_file H a (Some (LinkO t)) c st = Err) /\
    (forall d, d <> a_cs a -> checkout_file H a (Some (LinkC d)) c st = Err) /\
    (forall fuel n, a_isdir a = true -> is_dir n = false -> checkout_node H fuel a (Some n) c st = Err).
Proof. exact C06_obstructed. Qed.
Print Assumptions C06_obstructed_fails.

(* At the level of the COMMAND (all targets, all outputs, upstream stages): every pre-existing entry
   of the whole workspace is preserved by a successful checkout ... *)
Theorem C06_command_frame :
  forall (H : bytes -> bytes) idx c strat recursive fuel ts root done root' done',
    checkout_targets H idx c strat recursive fuel ts (Ok (root, done)) = Ok (root', done') ->
    forall p, preserved c strat (get root p) (get root' p).
Proof. exact checkout_targets_preserved. Qed.
Print Assumptions C06_command_frame.

(* ... and an entry in the way of ANY output of ANY stage in scope makes the command fail,
   wherever that stage comes in the list of targets *)
Theorem C06_command_obstructed_fails :
  forall (H : bytes -> bytes) idx c strat (recursive : bool) fuel ts root t b stg a bs,
    In t ts -> (if recursive then clos_refl_trans bytes (edge idx) b t else b = t) ->
    alookup b idx = Some stg -> In a (s_outputs stg) -> a_skip a = false -> a_isdir a = false ->
    get root (comps (a_path a)) = Some (File bs) -> H bs <> a_cs a ->
    checkout_targets H idx c strat recursive fuel ts (Ok (root, [])) = Err.
Proof. exact checkout_targets_obstructed_fails. Qed.
Print Assumptions C06_command_obstructed_fails.
