(* C14 - Checksums are BLAKE3-256 of the bytes, however they are read.
   Full statement: for all byte strings, all read chunkings (zero-length and one-byte reads
   included), all buffer sizes, all earlier computations on the pooled hasher and all
   sequences of computations, the checksum is the lowercase hex BLAKE3-256 of the bytes.
   Proved here: the statement over the model of ChecksumBuffer (Model/Stream.v) for an
   abstract incremental hasher meeting the Reset/Write/Sum contract; BLAKE3 itself is the
   Gallina function of Base/Blake3.v validated on the 21 official vectors.  The BLAKE3
   library's internals are compared by the correspondence check, not modelled. *)
From Coq Require Import NArith List Bool.
From DudV Require Import Base.Bytes Base.Blake3 Base.Blake3Vectors Model.Stream Proofs.StreamProofs.
Import ListNotations.

Theorem C14_checksum :
  forall (hstate : Type) (h_reset : hstate -> hstate) (h_write : hstate -> bytes -> hstate)
         (h_sum : hstate -> bytes) (H : bytes -> bytes),
    (forall h cs, Forall (fun c => c <> []) cs ->
                  h_sum (fold_left h_write cs (h_reset h)) = H (concat cs)) ->
    forall (h : hstate) (evs : list event),
      eof_script evs = true ->
      exists h', checksum hstate h_reset h_write h_sum h evs
                 = Some (h', Some (hex (H (data_of evs)))).
Proof. exact checksum_correct. Qed.
Print Assumptions C14_checksum.

Theorem C14_error_propagates :
  forall (hstate : Type) (h_reset : hstate -> hstate) (h_write : hstate -> bytes -> hstate)
         (h_sum : hstate -> bytes) (h : hstate) (evs : list event),
    fail_script evs = true ->
    exists h', checksum hstate h_reset h_write h_sum h evs = Some (h', None).
Proof. exact checksum_error. Qed.
Print Assumptions C14_error_propagates.

Theorem C14_sequence :
  forall (hstate : Type) (h_reset : hstate -> hstate) (h_write : hstate -> bytes -> hstate)
         (h_sum : hstate -> bytes) (H : bytes -> bytes),
    (forall h cs, Forall (fun c => c <> []) cs ->
                  h_sum (fold_left h_write cs (h_reset h)) = H (concat cs)) ->
    forall (pool : list hstate) (dflt : hstate) (jobs : list (nat * list event)),
      Forall (fun j => eof_script (snd j) = true) jobs ->
      checksum_seq hstate h_reset h_write h_sum pool dflt jobs =
        map (fun j => Some (Some (hex (H (data_of (snd j)))))) jobs.
Proof. exact checksum_seq_correct. Qed.
Print Assumptions C14_sequence.

Theorem C14_blake3_vectors : forallb check_vec vectors = true.
Proof. exact blake3_vectors. Qed.
Print Assumptions C14_blake3_vectors.

(* non-vacuity: the contract has an instance, and a concrete script meets the premises *)
Example C14_instance :
  exists h', checksum bytes acc_reset acc_write blake3 [7%N]
               [([1%N; 2%N], RNone); ([], RNone); ([3%N], REOF)]
             = Some (h', Some (hexdigest [1%N; 2%N; 3%N])).
Proof.
  apply (C14_checksum bytes acc_reset acc_write blake3 blake3 (acc_contract blake3)).
  reflexivity.
Qed.
