(* C09 - After a pipeline run, outputs are consistent with inputs.
   Full statement (properties.jsonl): after a successful recursive `dud run`, every stage that has
   a command either executed during that run (after everything upstream of it) or is unchanged
   since its last commit: its definition, the bytes of each of its inputs - a plain file or
   another stage's output, however and whenever that output was regenerated or committed - and
   the bytes of each of its outputs are exactly those that commit recorded.  Hence, when commits
   are made only after successful runs, every output equals what its command produces from the
   current sources, and a `dud run` straight after `dud run; dud commit` executes no stage that
   has inputs.
   Proved over Model/Index.v run_stage (the repaired staleness rules) for every hash, index,
   cache, workspace, target list and every FRAMED stage-command semantics ([exec_framed]: a
   command changes nothing outside its stage's own outputs) on a well-formed index ([idx_wf]:
   outputs of different stages, and plain inputs, do not overlap).
   The last sentence of the property is FALSE on the code for stages downstream of a stage with
   a command and no inputs (such a stage always runs and forces everything downstream to run:
   known finding D19, machine-checked witness Proofs/RunProofs.v
   C09Examples.source_chain_second_run_not_quiet); it is proved for pipelines without such a
   stage upstream of the targets (C09_rerun_quiet), and the general re-run behaviour is
   characterised exactly (C09_rerun_sources: what executes is what is downstream of a source). *)
From Coq Require Import NArith List Bool Relations.
From DudV Require Import Base.Bytes Base.Json Base.GoPath Model.Fs Model.Cache Model.Stage Model.Index Proofs.PipelineProofs Proofs.RunProofs Proofs.FreshProofs.
Import ListNotations.

Theorem C09_executed_or_unchanged :
  forall H exec idx c, exec_framed exec idx c -> idx_wf idx ->
    forall fuel ts root root' ran' log',
      run_targets H exec idx c true fuel ts (Ok (root, [], [])) = Ok (root', ran', log') ->
      (forall sp b, alookup sp ran' = Some b -> exists stg, alookup sp idx = Some stg) /\
      (* visited and NOT executed: unchanged since its last commit, in the FINAL workspace *)
      (forall sp stg, alookup sp idx = Some stg -> alookup sp ran' = Some false ->
         def_checksum H stg = s_cs stg /\ s_cs stg <> [] /\
         (forall a, In a (s_inputs stg) -> find_owner idx (a_path a) = None ->
                    short_top H a root' c = Ok true) /\
         (forall a op up, In a (s_inputs stg) -> find_owner idx (a_path a) = Some (op, up) ->
                          a_cs a = a_cs up /\ alookup op ran' = Some false) /\
         (forall o, In o (s_outputs stg) -> short_top H o root' c = Ok true)) /\
      (* decided to run and has a command: executed, after every executed upstream stage *)
      (forall sp stg, alookup sp idx = Some stg -> alookup sp ran' = Some true -> s_cmd stg <> [] ->
         In sp log' /\
         forall op, edge idx op sp -> In op log' ->
                    exists p q r, rev log' = p ++ op :: q ++ sp :: r) /\
      (forall sp, In sp log' -> alookup sp ran' = Some true).
Proof. exact C09_executed_or_clean. Qed.
Print Assumptions C09_executed_or_unchanged.

(* run straight after `run; commit`: nothing executes, nothing changes - when no stage with a
   command and no inputs is at or upstream of a target *)
Theorem C09_rerun_quiet :
  forall H exec idx c fuel ts root root' ran' log',
    all_clean H idx c root ->
    (forall s t, source idx s -> In t ts -> ~ clos_refl_trans bytes (edge idx) s t) ->
    run_targets H exec idx c true fuel ts (Ok (root, [], [])) = Ok (root', ran', log') ->
    log' = [] /\ root' = root /\ (forall sp b, alookup sp ran' = Some b -> b = false).
Proof. exact C09_rerun_quiet. Qed.
Print Assumptions C09_rerun_quiet.

(* in general: exactly the stages at or downstream of a source stage execute on a re-run *)
Theorem C09_rerun_sources :
  forall H exec idx c fuel ts root root' ran' log',
    exec_framed exec idx c -> idx_wf idx -> all_clean H idx c root ->
    run_targets H exec idx c true fuel ts (Ok (root, [], [])) = Ok (root', ran', log') ->
    (forall sp b, alookup sp ran' = Some b -> (b = true <-> dos idx sp)) /\
    (forall sp, In sp log' <->
                exists stg, alookup sp idx = Some stg /\ alookup sp ran' = Some true /\ s_cmd stg <> []) /\
    (forall Y sy, alookup Y idx = Some sy -> ~ dos idx Y -> clean0 H idx c root' sy).
Proof. exact C09_rerun_sources. Qed.
Print Assumptions C09_rerun_sources.

(* "Hence ... every output equals what its command produces from the current sources".
   [fresh exec c sp stg root']: executing the command of stg in the FINAL workspace succeeds and
   leaves every output with the contents it already has (contents = links into the cache read
   through: FreshProofs.same_at; entry-level equality would be false under the link strategy,
   FreshExamples.slot_equality_is_too_fine).  Premises: the command is a function of its inputs
   (exec_functional); commits were made only after successful runs (committed_fresh: a stage that
   is, with everything upstream, unchanged since its commit is fresh); inputs_wf - no output of a
   stage lies at/under an input that the stage does not own (what Stage.validate enforces for a
   stage's own inputs; FreshExamples.self_overlap_inputs_wf_needed shows it cannot be dropped). *)
Theorem C09_outputs_fresh :
  forall (H : bytes -> bytes) exec idx c,
    exec_framed exec idx c -> idx_wf idx -> inputs_wf idx ->
    forall fuel ts root root' ran' log',
      exec_functional exec idx c ->
      committed_fresh H exec idx c ->
      run_targets H exec idx c true fuel ts (Ok (root, [], [])) = Ok (root', ran', log') ->
      forall sp stg b, alookup sp ran' = Some b -> alookup sp idx = Some stg -> s_cmd stg <> [] ->
        fresh exec c sp stg root'.
Proof. exact run_outputs_fresh. Qed.
Print Assumptions C09_outputs_fresh.

(* without assuming that commands are functions of their inputs: the outputs in the final
   workspace are what a successful execution wrote in a workspace with the inputs it has now *)
Theorem C09_outputs_produced :
  forall (H : bytes -> bytes) exec idx c,
    exec_framed exec idx c -> idx_wf idx -> inputs_wf idx ->
    forall fuel ts root root' ran' log',
      committed_fresh H exec idx c ->
      run_targets H exec idx c true fuel ts (Ok (root, [], [])) = Ok (root', ran', log') ->
      forall sp stg b, alookup sp ran' = Some b -> alookup sp idx = Some stg -> s_cmd stg <> [] ->
        produced exec c sp stg root'.
Proof. exact run_outputs_produced. Qed.
Print Assumptions C09_outputs_produced.

(* how committed_fresh is established: a snapshot (the workspace right after `run; commit`) in
   which every stage is unchanged-since-commit and fresh, recorded checksums determining contents
   (proved for file artifacts from an injective hash: FreshProofs.short_top_file_determines;
   a premise for directory artifacts) - partial: that the model's `run; commit` produces such a
   snapshot is computed on FreshExamples' chain, not proved in general *)
Theorem C09_committed_fresh_partial :
  forall (H : bytes -> bytes) exec idx c,
    NoDup (map fst idx) -> owned_below idx -> cs_determines H idx c ->
    forall snap, exec_functional exec idx c ->
      (forall sp stg, alookup sp idx = Some stg -> clean0 H idx c snap stg) ->
      (forall sp stg, alookup sp idx = Some stg -> s_cmd stg <> [] -> fresh exec c sp stg snap) ->
      committed_fresh H exec idx c.
Proof. exact committed_fresh_intro. Qed.
Print Assumptions C09_committed_fresh_partial.
