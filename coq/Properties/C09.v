(* C09 - After a pipeline run, outputs are consistent with inputs.
   Full statement (properties.jsonl): after a successful recursive `dud run`, every stage that has
   a command either executed during that run (after everything upstream of it) or is unchanged
   since its last commit: its definition, the bytes of each of its inputs - a plain file or
   another stage's output, however and whenever that output was regenerated or committed - and
   the bytes of each of its outputs are exactly those that commit recorded.  Hence, when commits
   are made only after successful runs, every output equals what its command produces from the
   current sources, and a `dud run` straight after `dud run; dud commit` executes no stage that
   has inputs.
   Proved over Model/Index.v run_stage (the repaired staleness rules) for every hash, index,
   cache, workspace, target list and every FRAMED stage-command semantics ([exec_framed]: a
   command changes nothing outside its stage's own outputs) on a well-formed index ([idx_wf]:
   outputs of different stages, and plain inputs, do not overlap).
   The last sentence of the property is FALSE on the code for stages downstream of a stage with
   a command and no inputs (such a stage always runs and forces everything downstream to run:
   known finding D19, machine-checked witness Proofs/RunProofs.v
   C09Examples.source_chain_second_run_not_quiet); it is proved for pipelines without such a
   stage upstream of the targets (C09_rerun_quiet), and the general re-run behaviour is
   characterised exactly (C09_rerun_sources: what executes is what is downstream of a source). *)
From Coq Require Import NArith List Bool Relations.
From DudV Require Import Base.Bytes Base.Json Base.GoPath Model.Fs Model.Cache Model.Stage Model.Index Proofs.PipelineProofs Proofs.RunProofs.
Import ListNotations.

Theorem C09_executed_or_unchanged :
  forall H exec idx c, exec_framed exec idx c -> idx_wf idx ->
    forall fuel ts root root' ran' log',
      run_targets H exec idx c true fuel ts (Ok (root, [], [])) = Ok (root', ran', log') ->
      (forall sp b, alookup sp ran' = Some b -> exists stg, alookup sp idx = Some stg) /\
      (* visited and NOT executed: unchanged since its last commit, in the FINAL workspace *)
      (forall sp stg, alookup sp idx = Some stg -> alookup sp ran' = Some false ->
         def_checksum H stg = s_cs stg /\ s_cs stg <> [] /\
         (forall a, In a (s_inputs stg) -> find_owner idx (a_path a) = None ->
                    short_top H a root' c = Ok true) /\
         (forall a op up, In a (s_inputs stg) -> find_owner idx (a_path a) = Some (op, up) ->
                          a_cs a = a_cs up /\ alookup op ran' = Some false) /\
         (forall o, In o (s_outputs stg) -> short_top H o root' c = Ok true)) /\
      (* decided to run and has a command: executed, after every executed upstream stage *)
      (forall sp stg, alookup sp idx = Some stg -> alookup sp ran' = Some true -> s_cmd stg <> [] ->
         In sp log' /\
         forall op, edge idx op sp -> In op log' ->
                    exists p q r, rev log' = p ++ op :: q ++ sp :: r) /\
      (forall sp, In sp log' -> alookup sp ran' = Some true).
Proof. exact C09_executed_or_clean. Qed.
Print Assumptions C09_executed_or_unchanged.

(* run straight after `run; commit`: nothing executes, nothing changes - when no stage with a
   command and no inputs is at or upstream of a target *)
Theorem C09_rerun_quiet :
  forall H exec idx c fuel ts root root' ran' log',
    all_clean H idx c root ->
    (forall s t, source idx s -> In t ts -> ~ clos_refl_trans bytes (edge idx) s t) ->
    run_targets H exec idx c true fuel ts (Ok (root, [], [])) = Ok (root', ran', log') ->
    log' = [] /\ root' = root /\ (forall sp b, alookup sp ran' = Some b -> b = false).
Proof. exact C09_rerun_quiet. Qed.
Print Assumptions C09_rerun_quiet.

(* in general: exactly the stages at or downstream of a source stage execute on a re-run *)
Theorem C09_rerun_sources :
  forall H exec idx c fuel ts root root' ran' log',
    exec_framed exec idx c -> idx_wf idx -> all_clean H idx c root ->
    run_targets H exec idx c true fuel ts (Ok (root, [], [])) = Ok (root', ran', log') ->
    (forall sp b, alookup sp ran' = Some b -> (b = true <-> dos idx sp)) /\
    (forall sp, In sp log' <->
                exists stg, alookup sp idx = Some stg /\ alookup sp ran' = Some true /\ s_cmd stg <> []) /\
    (forall Y sy, alookup Y idx = Some sy -> ~ dos idx Y -> clean0 H idx c root' sy).
Proof. exact C09_rerun_sources. Qed.
Print Assumptions C09_rerun_sources.
