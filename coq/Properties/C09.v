(* C09 - After a pipeline run, outputs are consistent with inputs.
   Full statement (properties.jsonl): after a successful recursive `dud run`, every stage that has
   a command either executed during that run (after everything upstream of it) or is unchanged
   since its last commit: its definition, the bytes of each of its inputs - a plain file or
   another stage's output, however and whenever that output was regenerated or committed - and
   the bytes of each of its outputs are exactly those that commit recorded.  Hence, when commits
   are made only after successful runs, every output equals what its command produces from the
   current sources, and a `dud run` straight after `dud run; dud commit` executes no stage that
   has inputs.
   Proved over Model/Index.v run_stage (the repaired staleness rules) for every hash, index,
   cache, workspace, target list and every FRAMED stage-command semantics ([exec_framed]: a
   command changes nothing outside its stage's own outputs) on a well-formed index ([idx_wf]:
   outputs of different stages, and plain inputs, do not overlap).
   The last sentence of the property is FALSE on the code for stages downstream of a stage with
   a command and no inputs (such a stage always runs and forces everything downstream to run:
   known finding D19, machine-checked witness Proofs/RunProofs.v
   C09Examples.source_chain_second_run_not_quiet); it is proved for pipelines without such a
   stage upstream of the targets (C09_rerun_quiet), and the general re-run behaviour is
   characterised exactly (C09_rerun_sources: what executes is what is downstream of a source). *)
From Coq Require Import NArith List Bool Relations.
From DudV Require Import Base.Bytes Base.Json Base.GoPath Model.Fs Model.Cache Model.Stage Model.Index Proofs.PipelineProofs Proofs.RunProofs Proofs.FreshProofs Proofs.CacheDefs Proofs.CommitProofs Proofs.FreshCommitProofs.
Import ListNotations.

Theorem C09_executed_or_unchanged :
  forall H exec idx c, exec_framed exec idx c -> idx_wf idx ->
    forall fuel ts root root' ran' log',
      run_targets H exec idx c true fuel ts (Ok (root, [], [])) = Ok (root', ran', log') ->
      (forall sp b, alookup sp ran' = Some b -> exists stg, alookup sp idx = Some stg) /\
      (* visited and NOT executed: unchanged since its last commit, in the FINAL workspace *)
      (forall sp stg, alookup sp idx = Some stg -> alookup sp ran' = Some false ->
         def_checksum H stg = s_cs stg /\ s_cs stg <> [] /\
         (forall a, In a (s_inputs stg) -> find_owner idx (a_path a) = None ->
                    short_top H a root' c = Ok true) /\
         (forall a op up, In a (s_inputs stg) -> find_owner idx (a_path a) = Some (op, up) ->
                          a_cs a = a_cs up /\ alookup op ran' = Some false) /\
         (forall o, In o (s_outputs stg) -> short_top H o root' c = Ok true)) /\
      (* decided to run and has a command: executed, after every executed upstream stage *)
      (forall sp stg, alookup sp idx = Some stg -> alookup sp ran' = Some true -> s_cmd stg <> [] ->
         In sp log' /\
         forall op, edge idx op sp -> In op log' ->
                    exists p q r, rev log' = p ++ op :: q ++ sp :: r) /\
      (forall sp, In sp log' -> alookup sp ran' = Some true).
Proof. exact C09_executed_or_clean. Qed.
Print Assumptions C09_executed_or_unchanged.

(* run straight after `run; commit`: nothing executes, nothing changes - when no stage with a
   command and no inputs is at or upstream of a target *)
Theorem C09_rerun_quiet :
  forall H exec idx c fuel ts root root' ran' log',
    all_clean H idx c root ->
    (forall s t, source idx s -> In t ts -> ~ clos_refl_trans bytes (edge idx) s t) ->
    run_targets H exec idx c true fuel ts (Ok (root, [], [])) = Ok (root', ran', log') ->
    log' = [] /\ root' = root /\ (forall sp b, alookup sp ran' = Some b -> b = false).
Proof. exact C09_rerun_quiet. Qed.
Print Assumptions C09_rerun_quiet.

(* in general: exactly the stages at or downstream of a source stage execute on a re-run *)
Theorem C09_rerun_sources :
  forall H exec idx c fuel ts root root' ran' log',
    exec_framed exec idx c -> idx_wf idx -> all_clean H idx c root ->
    run_targets H exec idx c true fuel ts (Ok (root, [], [])) = Ok (root', ran', log') ->
    (forall sp b, alookup sp ran' = Some b -> (b = true <-> dos idx sp)) /\
    (forall sp, In sp log' <->
                exists stg, alookup sp idx = Some stg /\ alookup sp ran' = Some true /\ s_cmd stg <> []) /\
    (forall Y sy, alookup Y idx = Some sy -> ~ dos idx Y -> clean0 H idx c root' sy).
Proof. exact C09_rerun_sources. Qed.
Print Assumptions C09_rerun_sources.

(* "Hence ... every output equals what its command produces from the current sources".
   [fresh exec c sp stg root']: executing the command of stg in the FINAL workspace succeeds and
   leaves every output with the contents it already has (contents = links into the cache read
   through: FreshProofs.same_at; entry-level equality would be false under the link strategy,
   FreshExamples.slot_equality_is_too_fine).  Premises: the command is a function of its inputs
   (exec_functional); commits were made only after successful runs (committed_fresh: a stage that
   is, with everything upstream, unchanged since its commit is fresh); inputs_wf - no output of a
   stage lies at/under an input that the stage does not own (what Stage.validate enforces for a
   stage's own inputs; FreshExamples.self_overlap_inputs_wf_needed shows it cannot be dropped). *)
Theorem C09_outputs_fresh :
  forall (H : bytes -> bytes) exec idx c,
    exec_framed exec idx c -> idx_wf idx -> inputs_wf idx ->
    forall fuel ts root root' ran' log',
      exec_functional exec idx c ->
      committed_fresh H exec idx c ->
      run_targets H exec idx c true fuel ts (Ok (root, [], [])) = Ok (root', ran', log') ->
      forall sp stg b, alookup sp ran' = Some b -> alookup sp idx = Some stg -> s_cmd stg <> [] ->
        fresh exec c sp stg root'.
Proof. exact run_outputs_fresh. Qed.
Print Assumptions C09_outputs_fresh.

(* without assuming that commands are functions of their inputs: the outputs in the final
   workspace are what a successful execution wrote in a workspace with the inputs it has now *)
Theorem C09_outputs_produced :
  forall (H : bytes -> bytes) exec idx c,
    exec_framed exec idx c -> idx_wf idx -> inputs_wf idx ->
    forall fuel ts root root' ran' log',
      committed_fresh H exec idx c ->
      run_targets H exec idx c true fuel ts (Ok (root, [], [])) = Ok (root', ran', log') ->
      forall sp stg b, alookup sp ran' = Some b -> alookup sp idx = Some stg -> s_cmd stg <> [] ->
        produced exec c sp stg root'.
Proof. exact run_outputs_produced. Qed.
Print Assumptions C09_outputs_produced.

(* how committed_fresh is established: a snapshot (the workspace right after `run; commit`) in
   which every stage is unchanged-since-commit and fresh, recorded checksums determining contents
   (proved for file artifacts from an injective hash: FreshProofs.short_top_file_determines;
   a premise for directory artifacts) - partial: that the model's `run; commit` produces such a
   snapshot is computed on FreshExamples' chain, not proved in general *)
Theorem C09_committed_fresh_partial :
  forall (H : bytes -> bytes) exec idx c,
    NoDup (map fst idx) -> owned_below idx -> cs_determines H idx c ->
    forall snap, exec_functional exec idx c ->
      (forall sp stg, alookup sp idx = Some stg -> clean0 H idx c snap stg) ->
      (forall sp stg, alookup sp idx = Some stg -> s_cmd stg <> [] -> fresh exec c sp stg snap) ->
      committed_fresh H exec idx c.
Proof. exact committed_fresh_intro. Qed.
Print Assumptions C09_committed_fresh_partial.

(* "commits are made only after successful runs", closed under the model's own `run; commit`:
   partial - proved in full for indexes whose artifacts are all FILES (files_only); for directory
   artifacts Proofs/FreshCommitProofs.v proves the chain modulo three premises about the commit's
   result (run_commit_run_outputs_fresh_partial) and shows that a non-recursive directory's checksum
   does NOT determine its contents (DetCex.norec_not_determined).
   run (all stages visited) ; commit of every stage ; ANY workspace root2 (edits of sources, of
   outputs, anything) ; run  ==>  every visited stage with a command is fresh in the final
   workspace.  The conclusion of C09_run_commit_establishes_files_partial restates every premise
   for the new index and cache, so the cycle run; commit can be iterated. *)
Theorem C09_run_commit_run_fresh_files_partial :
  forall (H : bytes -> bytes) exec strat idx c,
    H_inj H -> H_has H -> exec_content_only exec idx -> exec_framed_like exec idx ->
    idx_wf idx -> inputs_wf idx -> owned_below idx -> ksorted (map fst idx) ->
    files_only idx -> cpaths_apart idx -> committed_fresh_on sorted_tree H exec idx c ->
    forall fuel ts root root1 ran1 log1 fuel2 ts2 idx' snap c' done fuel3 ts3 root2 root3 ran3 log3,
      (forall sp stg, alookup sp idx = Some stg -> s_cmd stg <> [] -> alookup sp ran1 <> None) ->
      run_targets H exec idx c true fuel ts (Ok (root, [], [])) = Ok (root1, ran1, log1) ->
      cache_ok H c -> resolved c root1 -> sorted_tree root1 ->
      (forall sp, In sp (map fst idx) -> In sp ts2) ->
      commit_targets H strat fuel2 ts2 (Ok (mkI idx root1 c, [])) = Ok (mkI idx' snap c', done) ->
      run_targets H exec idx' c' true fuel3 ts3 (Ok (root2, [], [])) = Ok (root3, ran3, log3) ->
      sorted_tree root3 ->
      forall sp stg b, alookup sp ran3 = Some b -> alookup sp idx' = Some stg -> s_cmd stg <> [] ->
        fresh exec c' sp stg root3.
Proof. exact run_commit_run_outputs_fresh_files. Qed.
Print Assumptions C09_run_commit_run_fresh_files_partial.

(* a recorded checksum determines the contents (links read through) of a file artifact and of a
   recursive directory artifact, in workspaces with sorted listings *)
Theorem C09_checksum_determines_contents :
  forall (H : bytes -> bytes) idx c,
    (forall x y, H x = H y -> x = y) -> cache_ok H c -> man_plain c ->
    (forall sp stg b, alookup sp idx = Some stg -> In b (s_outputs stg ++ s_inputs stg) ->
       a_isdir b = true -> a_norec b = false) ->
    cs_determines_on sorted_tree H idx c.
Proof. exact cs_determines_all. Qed.
Print Assumptions C09_checksum_determines_contents.
