(* C20 - Caches written by older dud versions stay readable.
   Full statement (properties.jsonl): a directory manifest that uses the old field naming
   (capitalised keys, all fields present) is interpreted exactly like the equivalent
   current-format manifest: checkout restores the same tree, status reports the same, push and
   fetch transfer the same objects, and a commit on top of it records the current workspace
   faithfully - for all trees, with the manifests of any subset of (sub)directories rewritten in
   the old schema.
   Proved: the two encodings decode to the same manifest (real JSON codec model); rewriting any
   selection [sel] of the manifests of a tree in the old schema (under their own digests, parents
   re-pointed: [reenc]) yields a cache that is SIMULATED by the original ([sim_art]: same shape,
   same file objects, manifests that decode alike at every level); and checkout, status
   (full and short-circuit), the expanded tree, the set of objects push gathers, and a commit on
   top agree across any two simulated caches.  Fetch walks the same graph as gather (C11). *)
From Coq Require Import NArith List Bool.
From DudV Require Import Base.Bytes Model.Fs Model.Cache Proofs.CacheDefs Proofs.ManifestRT Proofs.OldSchemaProofs.
Import ListNotations.

Theorem C20_decode_equal :
  forall m, wf_manifest m = true -> dec_manifest (enc_manifest_old m) = dec_manifest (enc_manifest m).
Proof. exact old_schema_equiv. Qed.
Print Assumptions C20_decode_equal.

(* any subset of the manifests of a tree rewritten in the old schema: the caches are simulated *)
Theorem C20_rewrite_simulates :
  forall (H : bytes -> bytes), H_inj H -> H_has H -> H_text H ->
    forall (sel : bytes -> bool) c1 d a,
      cache_ok H c1 -> closed c1 d a ->
      exists a' c2,
        reenc H sel d a c1 c1 = Some (a', c2) /\ cache_ok H c2 /\ ext c1 c2 /\
        sim_wf c1 c2 d a a' /\ sim_full_all c1 c2 a a' /\ (forall fuel, sim_art c1 c2 fuel a a').
Proof. exact C20_reenc_sim. Qed.
Print Assumptions C20_rewrite_simulates.

Theorem C20_checkout_equal :
  forall (H : bytes -> bytes) c1 c2 fuel a1 a2 slot st,
    sim_art c1 c2 fuel a1 a2 ->
    checkout_node H fuel a1 slot c1 st = checkout_node H fuel a2 slot c2 st.
Proof. exact C20_checkout_equal. Qed.
Print Assumptions C20_checkout_equal.

Theorem C20_status_equal :
  forall (H : bytes -> bytes) c1 c2 fuel a1 a2 slot,
    sim_art c1 c2 fuel a1 a2 ->
    status_rel (status_node H fuel a1 slot c1) (status_node H fuel a2 slot c2).
Proof. exact C20_status_equal. Qed.
Print Assumptions C20_status_equal.

Theorem C20_up_to_date_equal :
  forall (H : bytes -> bytes) c1 c2 fuel a1 a2 slot s1 s2,
    sim_art c1 c2 fuel a1 a2 ->
    status_node H fuel a1 slot c1 = Ok s1 -> status_node H fuel a2 slot c2 = Ok s2 ->
    st_cm s1 = st_cm s2.
Proof. exact C20_st_cm_equal. Qed.
Print Assumptions C20_up_to_date_equal.

(* push gathers the same file objects and the same number of manifests *)
Theorem C20_push_equal :
  forall c1 c2 fuel a1 a2, sim_art c1 c2 fuel a1 a2 -> gather fuel a1 c1 = gather fuel a2 c2.
Proof. exact C20_gather_equal. Qed.
Print Assumptions C20_push_equal.

(* a commit on top records the same workspace and the same checksum *)
Theorem C20_commit_on_top :
  forall (H : bytes -> bytes), H_inj H ->
    forall (K : bytes -> Prop) st n c1 c2 a1 a2 n1 c1' b1 n2 c2' b2,
      all_links K n -> cache_ok H c1 -> cache_ok H c2 -> agree_on K c1 c2 ->
      sim_full_all c1 c2 a1 a2 ->
      commit_node H a1 n c1 st = Ok (n1, c1', b1) ->
      commit_node H a2 n c2 st = Ok (n2, c2', b2) ->
      n1 = n2 /\ a_cs b1 = a_cs b2.
Proof. exact C20_commit_checksum. Qed.
Print Assumptions C20_commit_on_top.
