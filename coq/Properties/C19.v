(* C19 - A copy checkout never succeeds with corrupted bytes.
   Full statement (properties.jsonl): if the bytes of a cached file do not hash to the name it is
   stored under (bit flip, truncation or extension at any position), `dud checkout --copy` of any
   artifact that includes that file exits non-zero; it never reports success having placed file
   bytes in the workspace whose digest differs from the recorded checksum.
   Proved over Model/Cache.v (checkout_file, checkout_node) for every hash function, cache,
   artifact (file, or directory at any depth through the manifests) and every fuel. *)
From Coq Require Import NArith List Bool.
From DudV Require Import Base.Bytes Base.Json Model.Fs Model.Cache Proofs.CacheDefs Proofs.CheckoutProofs.
From Coq Require Import Relations.
From DudV Require Import Base.Json Base.GoPath Model.Stage Model.Index Proofs.PipelineProofs Proofs.StageLiftProofs.
Import ListNotations.

(* a file placed by a successful copy checkout hashes to the recorded checksum *)
Theorem C19_verified_copy :
  forall (H : bytes -> bytes) a slot c b,
    checkout_file H a slot c Copy = Ok (Some (File b)) -> H b = a_cs a.
Proof. exact copy_verified. Qed.
Print Assumptions C19_verified_copy.

(* every file of a tree placed by a successful copy checkout carries the bytes its manifest
   entry names *)
Theorem C19_tree_verified :
  forall (H : bytes -> bytes) fuel a c n,
    checkout_node H fuel a None c Copy = Ok (Some n) -> verified H c a n.
Proof. exact copy_tree_verified. Qed.
Print Assumptions C19_tree_verified.

(* a corrupted file object anywhere in the artifact's manifests makes the copy checkout fail *)
Theorem C19_corrupt_fails :
  forall (H : bytes -> bytes) c a x,
    reaches c a x -> corrupt H c x -> forall fuel, checkout_node H fuel a None c Copy = Err.
Proof. exact C19_corrupt_fails. Qed.
Print Assumptions C19_corrupt_fails.

Theorem C19_success_no_corruption :
  forall (H : bytes -> bytes) fuel a c n,
    checkout_node H fuel a None c Copy = Ok (Some n) ->
    verified H c a n /\ forall x, reaches c a x -> ~ corrupt H c x.
Proof. exact C19_success_no_corruption. Qed.
Print Assumptions C19_success_no_corruption.

(* At the level of the COMMAND (`dud checkout --copy [targets] [-s]`: the fold over the targets,
   every output of every visited stage, upstream stages included): success means every non-skip file
   output of every stage visited sits in the workspace as a regular file whose bytes hash to the
   recorded checksum - whichever output, whichever stage, in whatever order they were done. *)
Theorem C19_command_success_verified :
  forall (H : bytes -> bytes) idx c recursive fuel ts root root' done sp stg a,
    checkout_targets H idx c Copy recursive fuel ts (Ok (root, [])) = Ok (root', done) ->
    In sp done -> alookup sp idx = Some stg -> In a (s_outputs stg) ->
    a_skip a = false -> a_isdir a = false ->
    exists b, get root' (comps (a_path a)) = Some (File b) /\ H b = a_cs a.
Proof. exact checkout_targets_copy_verified_file. Qed.
Print Assumptions C19_command_success_verified.

(* ... and one corrupted object reachable from ANY output of ANY stage in scope (a target, or with
   the recursive walk anything upstream of one) makes the whole command fail - unless the workspace
   already holds a regular file with the recorded digest, which is left alone *)
Theorem C19_command_corrupt_fails :
  forall (H : bytes -> bytes) idx c (recursive : bool) fuel ts root t b stg a x,
    In t ts -> (if recursive then clos_refl_trans bytes (edge idx) b t else b = t) ->
    alookup b idx = Some stg -> In a (s_outputs stg) -> a_skip a = false ->
    reaches c a x -> corrupt H c x ->
    (forall p bs, get root p = Some (File bs) -> H bs <> a_cs x) ->
    checkout_targets H idx c Copy recursive fuel ts (Ok (root, [])) = Err.
Proof. exact checkout_targets_corrupt_fails. Qed.
Print Assumptions C19_command_corrupt_fails.
