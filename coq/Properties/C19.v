(* C19 - A copy checkout never succeeds with corrupted bytes.
   Full statement (properties.jsonl): if the bytes of a cached file do not hash to the name it is
   stored under (bit flip, truncation or extension at any position), `dud checkout --copy` of any
   artifact that includes that file exits non-zero; it never reports success having placed file
   bytes in the workspace whose digest differs from the recorded checksum.
   Proved over Model/Cache.v (checkout_file, checkout_node) for every hash function, cache,
   artifact (file, or directory at any depth through the manifests) and every fuel. *)
From Coq Require Import NArith List Bool.
From DudV Require Import Base.Bytes Base.Json Model.Fs Model.Cache Proofs.CacheDefs Proofs.CheckoutProofs.
Import ListNotations.

(* a file placed by a successful copy checkout hashes to the recorded checksum *)
Theorem C19_verified_copy :
  forall (H : bytes -> bytes) a slot c b,
    checkout_file H a slot c Copy = Ok (Some (File b)) -> H b = a_cs a.
Proof. exact copy_verified. Qed.
Print Assumptions C19_verified_copy.

(* every file of a tree placed by a successful copy checkout carries the bytes its manifest
   entry names *)
Theorem C19_tree_verified :
  forall (H : bytes -> bytes) fuel a c n,
    checkout_node H fuel a None c Copy = Ok (Some n) -> verified H c a n.
Proof. exact copy_tree_verified. Qed.
Print Assumptions C19_tree_verified.

(* a corrupted file object anywhere in the artifact's manifests makes the copy checkout fail *)
Theorem C19_corrupt_fails :
  forall (H : bytes -> bytes) c a x,
    reaches c a x -> corrupt H c x -> forall fuel, checkout_node H fuel a None c Copy = Err.
Proof. exact C19_corrupt_fails. Qed.
Print Assumptions C19_corrupt_fails.

Theorem C19_success_no_corruption :
  forall (H : bytes -> bytes) fuel a c n,
    checkout_node H fuel a None c Copy = Ok (Some n) ->
    verified H c a n /\ forall x, reaches c a x -> ~ corrupt H c x.
Proof. exact C19_success_no_corruption. Qed.
Print Assumptions C19_success_no_corruption.
