(* C08 - Pipelines run in dependency order, each stage once at most; cycles refused.
   Full statement (properties.jsonl): for any set of stages whose inputs/outputs form a DAG, one
   `dud run` executes each stage's command at most once, never before a stage that owns one of
   its inputs (at any directory depth inside a directory output), only for the requested stages
   and those upstream (only the requested ones with --single-stage); commit/checkout/status/push/
   fetch traverse the same set; on a cycle run, commit, checkout, status, graph, push and fetch
   terminate with an error without executing any command of the cycle.
   Proved over Model/Index.v (run_stage, commit_stage, checkout_stage, status_stage) and the
   whole-command level Model/System.v (step), for EVERY index, hash, stage-command semantics,
   cache, workspace and target list.  [edge idx a b] = stage a owns (per find_owner, i.e. exact
   output or enclosing directory output at any depth) an input of stage b.
   Not in the model: graph, push, fetch (same skeleton in Go; tied by the correspondence check). *)
From Coq Require Import NArith List Bool Relations.
From DudV Require Import Base.Bytes Base.Json Base.GoPath Model.Fs Model.Cache Model.Stage Model.Index Model.System Proofs.PipelineProofs Proofs.RunProofs Proofs.ScopeProofs.
Import ListNotations.

(* one `dud run` (a fold of Index.Run over the targets): the execution log has no duplicates,
   and an executed owner of an input comes before the stage that uses it *)
Theorem C08_once_and_order :
  forall (H : bytes -> bytes) (sems : list (bytes * cmdsem)) (w : world) (idx : index),
    w_lock w = false -> load_index (w_index w) (w_stages w) [] = Some idx ->
    forall targets single w' log,
      step H sems w (CRun targets single) = (w', true, ORun log) ->
      NoDup log /\
      (single = false -> forall a b, edge idx a b -> In a log -> In b log ->
                         exists p q r, log = p ++ a :: q ++ b :: r).
Proof. exact C08_step_run. Qed.
Print Assumptions C08_once_and_order.

(* when a stage is about to execute, every owner of one of its inputs has been visited *)
Theorem C08_owners_visited_first :
  forall H exec idx c f stack sp stg root ran log root1 ran1 log1 do1,
    run_inv idx ran log -> disj ran (sp :: stack) -> alookup sp idx = Some stg ->
    run_ins H exec idx c true f (sp :: stack) (s_inputs stg) root ran log (do0_of H stg)
      = Ok (root1, ran1, log1, do1) ->
    forall a, edge idx a sp -> alookup a ran1 <> None.
Proof. exact C08_owners_before_exec. Qed.
Print Assumptions C08_owners_visited_first.

(* only the requested stages and those upstream are visited; only the requested ones with
   --single-stage *)
Theorem C08_scope :
  forall H exec idx c recursive fuel ts root ran log root' ran' log' s,
    log_ok ran log ->
    run_targets H exec idx c recursive fuel ts (Ok (root, ran, log)) = Ok (root', ran', log') ->
    alookup s ran' <> None ->
    alookup s ran <> None \/
    exists t, In t ts /\ (if recursive then clos_refl_trans bytes (edge idx) s t else s = t).
Proof. exact C08_scope. Qed.
Print Assumptions C08_scope.

(* a cycle in the upstream closure of a target: the command fails and changes nothing *)
Theorem C08_cycle_run :
  forall H sems w idx, w_lock w = false -> load_index (w_index w) (w_stages w) [] = Some idx ->
    forall t a, clos_refl_trans bytes (edge idx) a t -> clos_trans bytes (edge idx) a a ->
    forall targets, In t (all_or targets idx) ->
      step H sems w (CRun targets false) = (w, false, ONone).
Proof. exact C08_step_run_cycle. Qed.
Print Assumptions C08_cycle_run.

Theorem C08_cycle_commit :
  forall H sems w idx, w_lock w = false -> load_index (w_index w) (w_stages w) [] = Some idx ->
    forall t a, clos_refl_trans bytes (edge idx) a t -> clos_trans bytes (edge idx) a a ->
    forall targets copy, In t (all_or targets idx) ->
      step H sems w (CCommit targets copy) = (w, false, ONone).
Proof. exact C08_step_commit_cycle. Qed.
Print Assumptions C08_cycle_commit.

Theorem C08_cycle_checkout :
  forall H sems w idx, w_lock w = false -> load_index (w_index w) (w_stages w) [] = Some idx ->
    forall t a, clos_refl_trans bytes (edge idx) a t -> clos_trans bytes (edge idx) a a ->
    forall targets copy single, In t (all_or targets idx) ->
      match targets with [] => true | _ => negb single end = true ->
      step H sems w (CCheckout targets copy single) = (w, false, ONone).
Proof. exact C08_step_checkout_cycle. Qed.
Print Assumptions C08_cycle_checkout.

Theorem C08_cycle_status :
  forall H sems w idx, w_lock w = false -> load_index (w_index w) (w_stages w) [] = Some idx ->
    forall t a, clos_refl_trans bytes (edge idx) a t -> clos_trans bytes (edge idx) a a ->
    forall targets, In t (all_or targets idx) ->
      step H sems w (CStatus targets) = (w, false, ONone).
Proof. exact C08_step_status_cycle. Qed.
Print Assumptions C08_cycle_status.

(* no command of a cycle is ever executed, also in runs that fail for another reason: the result
   of a run does not depend on what the commands of on-cycle stages would do *)
Theorem C08_cycle_never_executed :
  forall H exec idx c exec' fuel ts root ran log,
    (forall sp stg root0, ~ clos_trans bytes (edge idx) sp sp -> exec sp stg root0 c = exec' sp stg root0 c) ->
    run_inv idx ran log ->
    run_targets H exec idx c true fuel ts (Ok (root, ran, log)) =
    run_targets H exec' idx c true fuel ts (Ok (root, ran, log)).
Proof. exact C08_cycle_exec_irrelevant. Qed.
Print Assumptions C08_cycle_never_executed.

(* the traversal terminates: the fuel System.step supplies is always enough *)
Theorem C08_terminates :
  forall H exec idx c recursive fuel' ts init,
    S (length idx) <= fuel' ->
    run_targets H exec idx c recursive fuel' ts init =
    run_targets H exec idx c recursive (S (length idx)) ts init.
Proof. exact C08_fuel_targets. Qed.
Print Assumptions C08_terminates.

(* "Commit, checkout, status, push and fetch traverse the same set and leave the stage files and
   artifacts of every other stage untouched": a commit on explicit targets writes back exactly the
   stages upstream-or-equal of a target ... *)
Theorem C08_commit_scope_exact :
  forall H sems w idx ts copy w' out,
    w_lock w = false -> load_index (w_index w) (w_stages w) [] = Some idx -> ts <> [] ->
    step H sems w (CCommit ts copy) = (w', true, out) ->
    forall s, (forall t, In t ts -> ~ clos_refl_trans bytes (edge idx) s t) ->
      alookup s (w_stages w') = alookup s (w_stages w) /\ w_index w' = w_index w.
Proof. exact scope_commit_stages. Qed.
Print Assumptions C08_commit_scope_exact.

(* ... and leaves the output artifacts of every other stage physically untouched (idx_wf: outputs
   and plain inputs of different stages do not overlap - C10's invariant; without it the statement
   is refuted by ScopeProofs.scope_commit_artifacts_needs_wf, which is finding D5 seen from a
   neighbouring stage) *)
Theorem C08_commit_others_untouched :
  forall H sems w idx ts copy w' out,
    w_lock w = false -> load_index (w_index w) (w_stages w) [] = Some idx -> ts <> [] ->
    idx_wf idx ->
    step H sems w (CCommit ts copy) = (w', true, out) ->
    forall s stg a,
      (forall t, In t ts -> ~ clos_refl_trans bytes (edge idx) s t) ->
      alookup s idx = Some stg -> In a (s_outputs stg) ->
      get (w_root w') (comps (a_path a)) = get (w_root w) (comps (a_path a)).
Proof. exact scope_commit_artifacts. Qed.
Print Assumptions C08_commit_others_untouched.

Theorem C08_checkout_others_untouched :
  forall H sems w idx ts copy single w' out,
    w_lock w = false -> load_index (w_index w) (w_stages w) [] = Some idx -> ts <> [] ->
    idx_wf idx ->
    step H sems w (CCheckout ts copy single) = (w', true, out) ->
    w_stages w' = w_stages w /\ w_index w' = w_index w /\
    forall s stg a,
      (forall t, In t ts ->
                 ~ (if negb single then clos_refl_trans bytes (edge idx) s t else s = t)) ->
      alookup s idx = Some stg -> In a (s_outputs stg) ->
      get (w_root w') (comps (a_path a)) = get (w_root w) (comps (a_path a)).
Proof. exact scope_checkout. Qed.
Print Assumptions C08_checkout_others_untouched.

(* status, graph, push and fetch return the very same world, whatever the targets *)
Theorem C08_readonly_world :
  forall H sems w cmd,
    (exists ts, cmd = CStatus ts) \/ (exists ts, cmd = CGraph ts) \/
    (exists ts single, cmd = CPush ts single) \/ (exists ts single, cmd = CFetch ts single) ->
    fst (fst (step H sems w cmd)) = w.
Proof. exact scope_readonly. Qed.
Print Assumptions C08_readonly_world.

(* the set status reports on is exactly the scope of the targets *)
Theorem C08_status_scope_exact :
  forall H sems w idx ts w' out,
    w_lock w = false -> load_index (w_index w) (w_stages w) [] = Some idx -> ts <> [] ->
    step H sems w (CStatus ts) = (w', true, OStatus out) ->
    forall s, alookup s out <> None <-> exists t, In t ts /\ clos_refl_trans bytes (edge idx) s t.
Proof. exact scope_status_exact. Qed.
Print Assumptions C08_status_scope_exact.
