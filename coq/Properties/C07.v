(* C07 - Only commit records data; inputs and read-only commands are side-effect free.
   Full statement (properties.jsonl): `dud status` and `dud graph` leave the project byte-for-byte
   unchanged; `run`, `checkout`, `push` and `fetch` never alter a stage file; `run`, `status`,
   `graph`, `checkout`, `push` and `stage add/remove` never add, change or remove a cache object;
   dud itself never touches a stage's artifacts while running a pipeline - only the stage's own
   command does; no dud command, commit included, ever modifies, moves or replaces a workspace
   entry that is only a plain input or a skip-cache artifact.
   Proved over Model/System.v (step) for every world, command and stage-command semantics.
   proof, partial: "the dud process makes no other system call" is an audit of runs by the
   correspondence check (full project snapshots before/after every command), not a theorem;
   push/fetch: only the traversal is in this model.  For directory inputs / skip-cache
   DIRECTORIES the property is FALSE on the code (known finding D5: the directory path of commit
   ignores skip-cache): the last theorem is stated for regular-file entries, and
   Proofs/SystemProofs.v (cex_dir_input) exhibits the directory case. *)
From Coq Require Import NArith List Bool.
From DudV Require Import Base.Bytes Base.GoPath Model.Fs Model.Cache Model.Stage Model.Index Model.System Proofs.SystemProofs.
Import ListNotations.

Theorem C07_readonly :
  forall H sems w cmd,
    (exists ts, cmd = CStatus ts) \/ (exists ts, cmd = CGraph ts) ->
    fst (fst (step H sems w cmd)) = w.
Proof. exact C07_readonly. Qed.
Print Assumptions C07_readonly.

Theorem C07_no_stage_write :
  forall H sems w cmd, no_stage_write_cmd cmd ->
    w_stages (fst (fst (step H sems w cmd))) = w_stages w /\
    w_index (fst (fst (step H sems w cmd))) = w_index w.
Proof. exact C07_no_stage_write. Qed.
Print Assumptions C07_no_stage_write.

Theorem C07_no_cache_write :
  forall H sems w cmd, is_commit cmd = false ->
    w_cache (fst (fst (step H sems w cmd))) = w_cache w.
Proof. exact C07_no_cache_write. Qed.
Print Assumptions C07_no_cache_write.

Theorem C07_failed_step_unchanged :
  forall H sems w cmd,
    snd (fst (step H sems w cmd)) = false -> fst (fst (step H sems w cmd)) = w.
Proof. exact C07_failed_step_unchanged. Qed.
Print Assumptions C07_failed_step_unchanged.

(* every change of the workspace across `dud run` is a stage command's: the final tree is reached
   from the initial one by the commands of exactly the logged stages, in log order *)
Theorem C07_run_only_commands_write :
  forall H sems w ts single w' log,
    step H sems w (CRun ts single) = (w', true, ORun log) ->
    exists idx l,
      load_index (w_index w) (w_stages w) [] = Some idx /\
      exec_chain (exec sems) idx (w_cache w) (w_root w) l (w_root w') /\
      map tr_stage l = log.
Proof. exact C07_run_step_chain. Qed.
Print Assumptions C07_run_only_commands_write.

Theorem C07_run_without_effects :
  forall H exec w ts single w' out,
    (forall sp stg root c root', exec sp stg root c = Ok root' -> root' = root) ->
    step_run_gen H exec w ts single = (w', true, out) -> w_root w' = w_root w /\ w' = w.
Proof. exact C07_run_pure_exec_root. Qed.
Print Assumptions C07_run_without_effects.

(* commit records a checksum and nothing else for plain file inputs and skip-cache file outputs *)
Theorem C07_inputs_untouched :
  forall H sems w ts copy w' out idx sp stg a b,
    step H sems w (CCommit ts copy) = (w', true, out) ->
    load_index (w_index w) (w_stages w) [] = Some idx ->
    In (sp, stg) idx -> In a (s_inputs stg) -> find_owner idx (a_path a) = None ->
    get (w_root w) (comps (a_path a)) = Some (File b) ->
    frame_ok idx (comps (a_path a)) ->
    get (w_root w') (comps (a_path a)) = get (w_root w) (comps (a_path a)).
Proof. exact C07_inputs_untouched. Qed.
Print Assumptions C07_inputs_untouched.

Theorem C07_skip_outputs_untouched :
  forall H sems w ts copy w' out idx sp stg a b,
    step H sems w (CCommit ts copy) = (w', true, out) ->
    load_index (w_index w) (w_stages w) [] = Some idx ->
    In (sp, stg) idx -> In a (s_outputs stg) -> a_skip a = true ->
    get (w_root w) (comps (a_path a)) = Some (File b) ->
    frame_ok idx (comps (a_path a)) ->
    get (w_root w') (comps (a_path a)) = get (w_root w) (comps (a_path a)).
Proof. exact C07_skip_outputs_untouched. Qed.
Print Assumptions C07_skip_outputs_untouched.
