(* C05 - Status tells the truth about every artifact.
   Full statement (properties.jsonl): `dud status` reports an artifact - and for a directory each
   entry in it - as up-to-date if and only if its current workspace content (entry names, types
   and bytes, a link into the cache counting as the object it points to) equals what was last
   committed and that content is present in the cache (for skip-cache artifacts and plain inputs:
   matches the recorded checksum); right after a successful commit or checkout every artifact is
   reported up-to-date; after any content-changing edit it is not; content-preserving changes
   (link replaced by an identical copy) do not make it stale.
   Proved over Model/Cache.v (status_file, status_node, status_short) and a model of
   fsutil.SameContents, for every hash, cache, artifact, workspace entry and fuel.
   [expand fuel a c] is the logical tree the recorded checksum stands for (None if any part of
   it is missing from the cache); [logical c n] follows links into the cache; [tracked_view]
   drops sub-directories for a non-recursive artifact.
   Hypotheses found necessary by refutation (Proofs/StatusProofs.v, module Cex): digests have at
   least 3 characters (H_has), and the manifest of a non-recursive artifact lists no directory
   (norec_flat: what commit writes for it).
   The rendering of the status as text (Status.String) is compared by the correspondence check,
   see DESIGN.md (known finding D17/D18 concern the human text only). *)
From Coq Require Import NArith List Bool.
From DudV Require Import Base.Bytes Base.Json Model.Fs Model.Cache Proofs.CacheDefs Proofs.StatusProofs Proofs.SameContents.
From DudV Require Import Model.Render Proofs.RenderProofs.
Import ListNotations.

Theorem C05_iff :
  forall (H : bytes -> bytes), H_inj H -> H_has H -> forall fuel a n c s,
    cache_ok H c -> man_plain c -> sorted_tree n -> a_skip a = false -> has_cs (a_cs a) = true ->
    norec_flat a c ->
    status_node H fuel a (Some n) c = Ok s ->
    (st_cm s = true <->
     exists t, expand fuel a c = Some t /\ tracked_view a (logical c n) = t /\ kind_ok a n).
Proof. exact status_iff_fixed. Qed.
Print Assumptions C05_iff.

(* file level: up-to-date exactly when the entry, links followed, is the cached object *)
Theorem C05_file_iff :
  forall (H : bytes -> bytes) a n c,
    cache_ok H c -> a_skip a = false -> has_cs (a_cs a) = true ->
    (st_cm (status_file H a (Some n) c) = true <->
     exists o, cget c (a_cs a) = Some o /\ logical c n = File (o_data o)).
Proof. exact status_file_iff. Qed.
Print Assumptions C05_file_iff.

(* skip-cache artifacts and plain inputs: matches the recorded checksum *)
Theorem C05_skip :
  forall (H : bytes -> bytes) a b c,
    a_isdir a = false -> a_skip a = true -> has_cs (a_cs a) = true ->
    (st_cm (status_file H a (Some (File b)) c) = true <-> H b = a_cs a).
Proof. exact status_skip. Qed.
Print Assumptions C05_skip.

(* right after a successful commit everything is reported up-to-date, at every level *)
Theorem C05_after_commit :
  forall (H : bytes -> bytes), H_inj H -> H_has H -> H_text H -> codec_ok ->
    forall a n c st n' c' a',
      plain n -> kind_ok a n -> top_art a -> cache_inv H c ->
      commit_node H a n c st = Ok (n', c', a') ->
      exists fuel s, status_node H fuel a' (Some n') c' = Ok s /\ all_cm s.
Proof. exact status_after_commit. Qed.
Print Assumptions C05_after_commit.

(* the short-circuit answer (used by `dud run`) agrees with the full one *)
Theorem C05_short_circuit_agrees :
  forall (H : bytes -> bytes) fuel a slot c s,
    status_node H fuel a slot c = Ok s -> status_short H fuel a slot c = Ok (st_cm s).
Proof. exact short_agrees. Qed.
Print Assumptions C05_short_circuit_agrees.

(* fsutil.SameContents, whole-buffer comparison included, is byte equality for every buffer
   size >= 1; under arbitrary short reads a positive answer is still sound *)
Theorem C05_same_contents :
  forall B a b, 1 <= B -> (same_contents B a b = true <-> a = b).
Proof. exact same_contents_correct. Qed.
Print Assumptions C05_same_contents.

Theorem C05_same_contents_short_reads :
  forall B sa sb a b, same_contents_short B sa sb a b = true -> a = b.
Proof. exact same_contents_sound_short_reads. Qed.
Print Assumptions C05_same_contents_short_reads.

(* the codec premise of C05_after_commit is a theorem *)
Theorem C05_codec_ok : codec_ok.
Proof. exact StatusProofs.codec_ok_holds. Qed.
Print Assumptions C05_codec_ok.

(* the human text (Model/Render.v = artifact.Status.String(), compared with the binary's text in
   every status case of the correspondence runs): a file / link artifact is rendered with one of the
   three "up-to-date" texts exactly when the flags say so ... *)
Theorem C05_text_uptodate_iff :
  forall s, In (render s) uptodate_texts <-> uptodate_flags s = true.
Proof. exact render_file_uptodate_iff. Qed.
Print Assumptions C05_text_uptodate_iff.

(* ... a directory's count line consists of "up to date" labels only exactly when every leaf below
   it is rendered up to date ... *)
Theorem C05_text_dir_iff :
  forall s, forallb is_ok_label (items s) = true <-> forallb uptodate_flags (leaves s) = true.
Proof. exact render_dir_ok_iff. Qed.
Print Assumptions C05_text_dir_iff.

(* ... it does not depend on the iteration order of the children map ... *)
Theorem C05_text_order_independent :
  forall s s', sperm s s' -> render s = render s'.
Proof. exact render_perm. Qed.
Print Assumptions C05_text_order_independent.

(* ... and the known anomaly (finding D17b): an empty directory that was never committed is
   rendered exactly like an up-to-date one, so "all labels fine" does not imply ContentsMatch *)
Theorem C05_text_empty_directory_refuted :
  ~ (forall s, is_dirstatus s = true -> forallb is_ok_label (items s) = true -> st_cm s = true).
Proof. exact render_dir_ok_implies_cm_refuted. Qed.
Print Assumptions C05_text_empty_directory_refuted.
