(* C02 - The cache is content-addressed, append-only and read-only.
   Full statement (properties.jsonl): after any sequence of dud commands, every object in the
   cache is stored under the lowercase-hex BLAKE3-256 digest of its own bytes and has permission
   bits 0444; no dud command changes the bytes of, or removes, an object already in the cache.
   Proved over the whole-program model (Model/System.v step) for EVERY history of commands
   (commit, checkout, run, status, graph, push/fetch traversal, stage add/remove) from any state
   whose cache is well-formed - in particular from the empty cache of `dud init` - for every
   stage-command semantics.  [cache_ok H c]: every key is H of its object's bytes, mode 0444.
   [cache_le c c']: every object of c is in c' with the same bytes.
   Premise: H is collision-free on the strings involved (H_inj).  The transfer performed by
   push/fetch (rclone, permission fix-up) is Model/Remote.v / C11, not this theorem; that H is
   BLAKE3 and the placement <hh>/<rest> are checked by re-hashing the whole observed cache with
   the Gallina BLAKE3 in the correspondence runs. *)
From Coq Require Import NArith List Bool.
From DudV Require Import Base.Bytes Model.Fs Model.Cache Model.System Proofs.CacheDefs Proofs.CommitProofs Proofs.Glue Model.Remote Proofs.FetchRetryProofs Proofs.TransferHistoryProofs.
Import ListNotations.

Theorem C02_history :
  forall (H : bytes -> bytes), H_inj H ->
    forall sems (cmds : list command) (w : world),
      cache_ok H (w_cache w) ->
      let w' := fold_left (fun w0 c => fst (fst (step H sems w0 c))) cmds w in
      cache_ok H (w_cache w') /\ cache_le (w_cache w) (w_cache w').
Proof. exact history_cache_ok. Qed.
Print Assumptions C02_history.

Theorem C02_step :
  forall (H : bytes -> bytes), H_inj H ->
    forall sems (w : world) (cmd : command),
      cache_ok H (w_cache w) ->
      cache_ok H (w_cache (fst (fst (step H sems w cmd)))) /\
      cache_le (w_cache w) (w_cache (fst (fst (step H sems w cmd)))).
Proof. exact step_cache_ok. Qed.
Print Assumptions C02_step.

(* artifact level: one cache.Commit *)
Theorem C02_commit :
  forall (H : bytes -> bytes), H_inj H -> forall a n c st n' c' a',
    cache_ok H c -> commit_node H a n c st = Ok (n', c', a') -> cache_ok H c' /\ cache_le c c'.
Proof. exact commit_cache_ok. Qed.
Print Assumptions C02_commit.

(* the premise holds at the start: a fresh project has an empty cache *)
Theorem C02_initial : forall (H : bytes -> bytes), cache_ok H [].
Proof. exact cache_ok_empty. Qed.
Print Assumptions C02_initial.

(* ... and over histories that INCLUDE the transfers: [gstep] runs any local command (step), a
   `dud push` / `dud fetch` (Model/Remote.v rstep_push / rstep_fetch on the project and a remote
   cache), or a transfer that rclone aborted part-way followed by the permission fix-up
   (interrupted_copy, any cut, any file list).  Both stores - the local cache and the remote - stay
   content-addressed and read-only and never lose or alter an object. *)
Theorem C02_history_with_transfers :
  forall (H : bytes -> bytes), H_inj H ->
    forall sems (cmds : list gcommand) (w : world) (remote : cache),
      cache_ok H (w_cache w) -> cache_ok H remote ->
      let g' := fold_left (gstep H sems) cmds (w, remote) in
      cache_ok H (w_cache (fst g')) /\ cache_ok H (snd g') /\
      cache_le (w_cache w) (w_cache (fst g')) /\ cache_le remote (snd g').
Proof. exact transfer_history_cache_ok. Qed.
Print Assumptions C02_history_with_transfers.

Theorem C02_transfers_from_empty :
  forall (H : bytes -> bytes), H_inj H ->
    forall sems (cmds : list gcommand) (w : world),
      w_cache w = [] ->
      let g' := fold_left (gstep H sems) cmds (w, []) in
      cache_ok H (w_cache (fst g')) /\ cache_ok H (snd g').
Proof. exact transfer_history_from_empty. Qed.
Print Assumptions C02_transfers_from_empty.
