(* C03 - Killing dud at any instant loses no data and tears no metadata.
   Full statement (properties.jsonl): if the dud process is killed at any point during commit,
   checkout or stage add/remove, every byte sequence that was in a tracked workspace file
   beforehand is still retrievable afterwards - at its workspace path (directly or through a
   link) or as a cache object named by its digest - and no object exists under a digest name
   with incomplete or different bytes; each stage file and the index is afterwards either its
   complete previous version or its complete new version.
   Proved over the cut semantics Model/Crash.v: a cut is any state between two mutating system
   calls; for a directory every child is INDEPENDENTLY in one of its own cuts (the full product,
   which contains every goroutine interleaving), the manifest is written only when all children
   are final; stage files and the index have exactly two visible states (temp + rename).
   proof, partial: atomicity of each system call w.r.t. SIGKILL, atomic rename(2), and that
   completed calls persist (process kill, not power loss) are assumptions; that the cut lists
   are the real program's call sequences is observed with a ptrace monitor killing the real
   binary at EVERY mutating system call (family crash). *)
From Coq Require Import NArith List Bool.
From DudV Require Import Base.Bytes Model.Fs Model.Cache Model.Crash Proofs.CacheDefs Proofs.CrashProofs.
Import ListNotations.

Theorem C03_no_loss :
  forall (H : bytes -> bytes) st cr a n c s' c',
    H_inj H -> plain n -> commit_cut H st cr a n c (s', c') -> no_loss H c n s' c'.
Proof. exact C03_no_loss. Qed.
Print Assumptions C03_no_loss.

(* the same, as the boolean that the correspondence check evaluates on observed states *)
Theorem C03_no_loss_checked :
  forall (H : bytes -> bytes) st cr a n c s' c',
    H_inj H -> plain n -> commit_cut H st cr a n c (s', c') -> no_loss_b H c n s' c' = true.
Proof. exact C03_no_loss_b. Qed.
Print Assumptions C03_no_loss_checked.

Theorem C03_no_torn_object :
  forall (H : bytes -> bytes) st cr a n c s' c',
    commit_cut H st cr a n c (s', c') -> no_torn H c c'.
Proof. exact C03_no_torn_object. Qed.
Print Assumptions C03_no_torn_object.

(* initial and final states are cuts, and every cut's cache lies between them *)
Theorem C03_cut_endpoints :
  forall (H : bytes -> bytes) st cr a n c nf cf af,
    H_inj H -> cache_ok H c -> commit_node H a n c st = Ok (nf, cf, af) ->
    commit_cut H st cr a n c (Some n, c) /\
    commit_cut H st cr a n c (Some nf, cf) /\
    (forall s' c', commit_cut H st cr a n c (s', c') -> cache_le c c' /\ cache_le c' cf).
Proof. exact C03_cut_endpoints. Qed.
Print Assumptions C03_cut_endpoints.

Theorem C03_checkout_no_loss :
  forall (H : bytes -> bytes) st c f a n s,
    keyed H c -> ntree n -> checkout_cut st c f a (Some n) s -> no_loss H c n s c.
Proof. exact C03_checkout_no_loss_files. Qed.
Print Assumptions C03_checkout_no_loss.

Theorem C03_metadata_atomic :
  forall (A : Type) (old new x : A), In x (meta_cuts old new) -> x = old \/ x = new.
Proof. exact (@C03_metadata_atomic). Qed.
Print Assumptions C03_metadata_atomic.
