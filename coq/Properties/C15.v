(* C15 - Commit, checkout and init are idempotent.
   Full statement (properties.jsonl): repeating `dud commit` or `dud checkout` right after it
   succeeded succeeds again and changes nothing: the same cache objects, byte-identical stage
   files, the same workspace; commit after checkout and checkout after commit are likewise
   no-ops, under either strategy; re-running `dud init` inside an initialised project never
   discards its index, configuration or cache.
   Proved over Model/Cache.v: a repeated commit (same strategy) returns exactly the same node,
   cache and artifact record; a repeated checkout returns the same entry.  Mixed sequences change
   the physical representation (a copy becomes a link, a matching link becomes a copy) but not
   the logical content: C01_commit_keeps_logical_links and C06_frame.  `dud init` is not part of
   the model (it is a fixed sequence of file writes): the refusal to re-initialise is observed by
   the correspondence check (family idem).  Byte-identity of stage files follows from equality
   of the stage records plus determinism of the YAML encoder (C17; yaml.v2 is not modelled). *)
From Coq Require Import NArith List Bool.
From DudV Require Import Base.Bytes Model.Fs Model.Cache Proofs.CacheDefs Proofs.CommitProofs Proofs.CheckoutProofs Model.Init Proofs.InitProofs.
Import ListNotations.

Theorem C15_commit_repeat :
  forall (H : bytes -> bytes), H_inj H -> H_has H -> H_text H ->
    forall a n c st n' c' a',
      ctree c n -> wf_text (a_path a) -> cache_ok H c -> man_plain c -> cache_sorted c ->
      commit_node H a n c st = Ok (n', c', a') ->
      commit_node H a' n' c' st = Ok (n', c', a').
Proof. exact commit_idem_final. Qed.
Print Assumptions C15_commit_repeat.

Theorem C15_checkout_repeat :
  forall (H : bytes -> bytes) fuel a slot c st r,
    match slot with Some n => sorted_tree n | None => True end ->
    checkout_node H fuel a slot c st = Ok r -> checkout_node H fuel a r c st = Ok r.
Proof. exact checkout_idem. Qed.
Print Assumptions C15_checkout_repeat.

(* commit after checkout / a commit with the other strategy: the logical content is unchanged
   and no existing cache object changes *)
Theorem C15_mixed_logical :
  forall (H : bytes -> bytes), H_inj H -> forall a n c st n' c' a',
    cache_ok H c -> resolved c n -> commit_node H a n c st = Ok (n', c', a') ->
    logical c' n' = logical c n /\ resolved c' n'.
Proof. exact commit_logical_resolved. Qed.
Print Assumptions C15_mixed_logical.

(* checkout after commit / with the other strategy: every pre-existing entry is preserved; a
   matching link may become a copy of the very same bytes *)
Theorem C15_mixed_checkout :
  forall (H : bytes -> bytes) fuel a slot c st r,
    checkout_node H fuel a slot c st = Ok r -> preserved c st slot r.
Proof. exact checkout_frame_strong. Qed.
Print Assumptions C15_mixed_checkout.

(* last sentence: `dud init` inside an initialised project (its index exists) refuses and leaves
   index, configuration, .gitignore, rclone.conf and the cache directory exactly as they are -
   for every content of those files and every configuration text init would have written *)
Theorem C15_init_never_discards :
  forall cfg rcl m, m_index m <> None ->
    let m' := fst (init_cmd cfg rcl m) in
    m_index m' = m_index m /\ m_config m' = m_config m /\ m_ignore m' = m_ignore m /\
    m_rclone m' = m_rclone m /\ m_cache m' = m_cache m /\ snd (init_cmd cfg rcl m) = false.
Proof. exact init_never_discards. Qed.
Print Assumptions C15_init_never_discards.

(* init succeeds exactly when there is no index; afterwards there is one, so repeating it refuses
   and changes nothing *)
Theorem C15_init_ok_iff : forall cfg rcl m, snd (init_cmd cfg rcl m) = true <-> m_index m = None.
Proof. exact init_ok_iff. Qed.
Print Assumptions C15_init_ok_iff.

Theorem C15_init_repeat :
  forall cfg rcl cfg' rcl' m,
    init_cmd cfg' rcl' (fst (init_cmd cfg rcl m)) = (fst (init_cmd cfg rcl m), false).
Proof. exact init_twice. Qed.
Print Assumptions C15_init_repeat.
