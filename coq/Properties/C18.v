(* C18 - Dud never writes outside the project, its cache and its config.
   Full statement (properties.jsonl): whatever stage files, the index and cache manifests contain,
   no dud command creates, modifies or deletes a filesystem entry outside the project root, the
   configured cache directory and the user configuration directory (the stage's own shell command
   excepted); stage files naming absolute or parent-escaping paths are rejected, and so are
   directory manifests whose entries would land outside their artifact's directory.
   Proved: the lexical containment of every path dud computes from an accepted stage file and
   from a decoded manifest - filepath.Join(root, artifact path) and the iterated
   filepath.Join(dir, entry name) - for EVERY Clean absolute root, every accepted stage, every
   decodable manifest, at every nesting depth; and the rejection of escaping stage files and
   manifests.  The whole-program model addresses every write relative to the project root
   (Model/Fs.v put/get on component lists), so within the model nothing outside can be named;
   that the real program writes only at those paths is observed by the correspondence check
   (family hostile: a sentinel tree around the project is hashed before and after every command).
   Hypothesis: no symlinked directories on the way (a `data -> /etc` link is the user's doing). *)
From Coq Require Import NArith List Bool.
From DudV Require Import Base.Bytes Base.GoPath Model.Fs Model.Cache Model.Stage Model.System Proofs.Ownership Proofs.ContainProofs Proofs.IndexLineProofs.
Import ListNotations.
Local Open Scope N_scope.

Theorem C18_stage_paths :
  forall sp s root rcs,
    validate sp s = true -> Forall okc rcs -> root = 47 :: join_comps rcs ->
    (forall a, In a (s_inputs s ++ s_outputs s) ->
       contains_dotdot (a_path a) = false /\ is_abs (a_path a) = false /\
       under root (join2 root (a_path a)) = true /\
       comps (join2 root (a_path a)) = comps root ++ comps (a_path a)) /\
    contains_dotdot (s_wd s) = false /\ is_abs (s_wd s) = false /\
    under root (join2 root (s_wd s)) = true /\
    comps (join2 root (s_wd s)) = comps root ++ comps (s_wd s).
Proof. exact C18_stage_paths. Qed.
Print Assumptions C18_stage_paths.

Theorem C18_stage_rejects :
  forall sp s,
    (exists a, In a (s_inputs s ++ s_outputs s) /\
               (contains_dotdot (a_path a) = true \/ is_abs (a_path a) = true)) \/
    contains_dotdot (s_wd s) = true \/ is_abs (s_wd s) = true ->
    validate sp s = false.
Proof. exact C18_stage_rejects. Qed.
Print Assumptions C18_stage_rejects.

(* every entry of a manifest that decodes lands exactly one level below its directory *)
Theorem C18_manifest :
  forall b m d dcs,
    dec_manifest b = Some m -> Forall okc dcs -> d = 47 :: join_comps dcs ->
    forall k a, In (k, a) (m_contents m) ->
      a_path a = k /\ valid_entry_name k = true /\
      comps (join2 d (a_path a)) = comps d ++ [k] /\ under d (join2 d (a_path a)) = true.
Proof. exact C18_manifest. Qed.
Print Assumptions C18_manifest.

(* at any depth: descending from an accepted artifact path through valid entry names stays
   under the root *)
Theorem C18_writes_inside :
  forall root rcs p ns,
    Forall okc rcs -> root = 47 :: join_comps rcs ->
    contains_dotdot p = false -> is_abs p = false ->
    Forall (fun n => valid_entry_name n = true) ns ->
    comps (fold_left join2 ns (join2 root p)) = comps root ++ comps p ++ ns /\
    under root (fold_left join2 ns (join2 root p)) = true.
Proof. exact C18_nested_inside. Qed.
Print Assumptions C18_writes_inside.

(* hostile names are not valid entry names *)
Theorem C18_hostile_names :
  valid_entry_name [] = false /\ valid_entry_name [46] = false /\ valid_entry_name [46; 46] = false /\
  (forall n, In 47 n -> valid_entry_name n = false) /\ (forall n, In 0 n -> valid_entry_name n = false).
Proof.
  exact (conj valid_entry_name_empty (conj valid_entry_name_dot (conj valid_entry_name_dotdot
        (conj valid_entry_name_slash valid_entry_name_nul)))).
Qed.
Print Assumptions C18_hostile_names.

(* the index: a line is accepted exactly when it is relative and, once cleaned, neither ".." nor
   below "..": the stage file it names (the file commit writes back) then lies at or below the
   project root; a command on an index with one hostile line does nothing at all *)
Theorem C18_index_line_inside :
  forall root rcs l,
    Forall okc rcs -> root = 47 :: join_comps rcs -> index_line_ok l = true ->
    under root (join2 root l) = true.
Proof. exact index_line_under_root. Qed.
Print Assumptions C18_index_line_inside.

Theorem C18_index_line_rejects :
  forall l, index_line_ok l = false <->
    is_abs l = true \/ clean l = [46; 46] \/ exists t, clean l = 46 :: 46 :: 47 :: t.
Proof. exact index_line_ok_false_iff. Qed.
Print Assumptions C18_index_line_rejects.

Theorem C18_hostile_index_noop :
  forall H sems w cmd,
    forallb index_line_ok (w_index w) = false ->
    step_checked H sems w cmd = (w, false, ONone).
Proof. exact step_checked_hostile_index. Qed.
Print Assumptions C18_hostile_index_noop.
