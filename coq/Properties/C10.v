(* C10 - Every path has at most one owner, whatever the order stages are added.
   Full statement (properties.jsonl): the index never holds two output artifacts where one
   equals or lies inside the other (across stages, at any directory depth, honouring
   disable-recursion); no single stage lists an artifact equal to or inside another of its own;
   no stage is rejected for an overlap that does not exist; acceptance of a set of stages does
   not depend on the insertion order; an index written by a successful stage add can always be
   loaded.  Proved over Model/Stage.v (find_dir_owner, validate, add_stage, remove_stage,
   load_index) for artifacts whose paths are Clean relative paths without ".." ([good_art]);
   the reference relation [overlap] is on component lists and - like the code - ignores is-dir. *)
From Coq Require Import NArith List Bool Permutation.
From DudV Require Import Base.Bytes Base.Json Base.GoPath Model.Fs Model.Cache Model.Stage Proofs.Ownership.
Import ListNotations.

(* every index reachable by any sequence of stage add / remove (rejected ones skipped) has
   pairwise non-overlapping outputs *)
Theorem C10_invariant :
  forall ops, Forall op_ok ops -> index_wf (exec_ops [] ops) /\ sorted_keys (exec_ops [] ops).
Proof. exact C10_invariant. Qed.
Print Assumptions C10_invariant.

(* a stage is rejected exactly when one of its outputs overlaps an output already in the index *)
Theorem C10_exact :
  forall idx path s, index_wf idx -> arts_ok (s_outputs s) -> alookup path idx = None ->
    (add_stage idx path s = None <->
     exists o o', In o (s_outputs s) /\ In o' (all_outputs idx) /\ overlap o o').
Proof. exact add_stage_exact. Qed.
Print Assumptions C10_exact.

(* the ancestor walk finds an owner exactly when the reference relation has one *)
Theorem C10_find_dir_owner :
  forall cs arts, good_comps cs -> Forall good_art arts -> NoDup (map a_path arts) ->
    (forall q, find_dir_owner (join_comps cs) arts = Some q ->
               In q arts /\ inside cs (comps_of q) (a_norec q)) /\
    (forall q, In q arts -> inside cs (comps_of q) (a_norec q) ->
               find_dir_owner (join_comps cs) arts <> None).
Proof. exact find_dir_owner_spec. Qed.
Print Assumptions C10_find_dir_owner.

(* acceptance (and the resulting index) of any list of stages is invariant under permutation *)
Theorem C10_order_independent :
  forall l l', Permutation l l' -> forall idx, index_wf idx -> Forall entry_ok l ->
    add_all idx l = add_all idx l'.
Proof. exact add_all_perm. Qed.
Print Assumptions C10_order_independent.

(* the owner lookup does not depend on Go's map iteration order *)
Theorem C10_owner_unique :
  forall idx idx' cs, index_wf idx -> good_comps cs -> Permutation idx idx' ->
    find_owner idx' (join_comps cs) = find_owner idx (join_comps cs).
Proof. exact find_owner_unique. Qed.
Print Assumptions C10_owner_unique.

(* the sorted index written after accepted adds/removes of valid stages loads again *)
Theorem C10_reload :
  forall ops, Forall op_okv ops ->
    let idx := exec_ops [] ops in
    load_index (map fst idx) (map (fun e => (fst e, Some (snd e))) idx) [] = Some idx.
Proof. exact reload_reachable. Qed.
Print Assumptions C10_reload.

(* Validate: accepted stages have no two overlapping artifacts; and non-overlap (with the other
   documented conditions) is accepted *)
Theorem C10_intra_stage :
  forall p s, Forall good_art (s_outputs s ++ s_inputs s) ->
    NoDup (map a_path (s_outputs s)) -> NoDup (map a_path (s_inputs s)) ->
    validate p s = true -> pairwise no_overlap (s_outputs s ++ s_inputs s).
Proof. exact validate_intra_stage. Qed.
Print Assumptions C10_intra_stage.

Theorem C10_intra_stage_complete :
  forall p s, contains_dotdot (s_wd s) = false -> is_abs (s_wd s) = false ->
    (s_inputs s <> [] \/ s_outputs s <> []) -> (s_outputs s <> [] \/ s_cmd s <> []) ->
    (forall a, In a (s_outputs s ++ s_inputs s) -> a_path a <> p) ->
    arts_ok (s_outputs s ++ s_inputs s) -> validate p s = true.
Proof. exact validate_complete. Qed.
Print Assumptions C10_intra_stage_complete.
