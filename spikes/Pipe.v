From stdpp Require Import gmap list.

(* Spike: the DFS skeleton of index.Run with ran / inProgress maps. *)
Definition sid := nat.

Record stage := { owners : list sid; has_cmd : bool; self_stale : bool }.
Notation index := (gmap sid stage).
Inductive err := Cycle | Unknown (s : sid) | OutOfFuel.

(* fin = ghost: finish order (order of insertion into ran) *)
Record st := { ran : gmap sid bool; inprog : gset sid; log : list sid; fin : list sid }.

Section run.
  Context (idx : index).

  Fixpoint run (fuel : nat) (s : sid) (x : st) : st * option err :=
    match fuel with
    | O => (x, Some OutOfFuel)
    | S f =>
      if decide (is_Some (ran x !! s)) then (x, None) else
      if decide (s ∈ inprog x) then (x, Some Cycle) else
      match idx !! s with
      | None => (x, Some (Unknown s))
      | Some sg =>
        let x0 := {| ran := ran x; inprog := {[s]} ∪ inprog x; log := log x; fin := fin x |} in
        let fix go (os : list sid) (acc : bool) (x : st) : bool * st * option err :=
          match os with
          | [] => (acc, x, None)
          | o :: os' =>
            match run f o x with
            | (x', Some e) => (acc, x', Some e)
            | (x', None) => go os' (acc || default false (ran x' !! o)) x'
            end
          end in
        match go (owners sg) (self_stale sg) x0 with
        | (_, x1, Some e) => (x1, Some e)
        | (do_run, x1, None) =>
          ({| ran := <[s := do_run]> (ran x1);
              inprog := inprog x1 ∖ {[s]};
              log := if do_run && has_cmd sg then log x1 ++ [s] else log x1;
              fin := fin x1 ++ [s] |}, None)
        end
      end
    end.

  Fixpoint go (f : nat) (os : list sid) (acc : bool) (x : st) : bool * st * option err :=
    match os with
    | [] => (acc, x, None)
    | o :: os' =>
      match run f o x with
      | (x', Some e) => (acc, x', Some e)
      | (x', None) => go f os' (acc || default false (ran x' !! o)) x'
      end
    end.

  Lemma run_unfold f s x :
    run (S f) s x =
      if decide (is_Some (ran x !! s)) then (x, None) else
      if decide (s ∈ inprog x) then (x, Some Cycle) else
      match idx !! s with
      | None => (x, Some (Unknown s))
      | Some sg =>
        let x0 := {| ran := ran x; inprog := {[s]} ∪ inprog x; log := log x; fin := fin x |} in
        match go f (owners sg) (self_stale sg) x0 with
        | (_, x1, Some e) => (x1, Some e)
        | (do_run, x1, None) =>
          ({| ran := <[s := do_run]> (ran x1);
              inprog := inprog x1 ∖ {[s]};
              log := if do_run && has_cmd sg then log x1 ++ [s] else log x1;
              fin := fin x1 ++ [s] |}, None)
        end
      end.
  Proof.
    simpl. repeat case_decide; try done. destruct (idx !! s) as [sg|]; [|done].
    assert (Hgo : forall os acc y,
      (fix go (os : list sid) (acc : bool) (x : st) : bool * st * option err :=
          match os with
          | [] => (acc, x, None)
          | o :: os' =>
            match run f o x with
            | (x', Some e) => (acc, x', Some e)
            | (x', None) => go os' (acc || default false (ran x' !! o)) x'
            end
          end) os acc y = go f os acc y).
    { induction os as [|o os IH]; intros acc y; simpl; [done|].
      destruct (run f o y) as [x' [e|]]; [done|]. apply IH. }
    rewrite Hgo. done.
  Qed.

  (* position of a stage in the finish order *)
  Definition before (l : list sid) (a b : sid) :=
    exists i j, l !! i = Some a /\ l !! j = Some b /\ i < j.

  Record W (x : st) : Prop := {
    W_nodup : NoDup (fin x);
    W_dom : forall s, is_Some (ran x !! s) <-> s ∈ fin x;
    W_disj : forall s, s ∈ inprog x -> ran x !! s = None;
    W_owners : forall b sg o, b ∈ fin x -> idx !! b = Some sg -> o ∈ owners sg -> before (fin x) o b;
    W_log_sub : forall s, s ∈ log x -> ran x !! s = Some true;
    W_log_nodup : NoDup (log x);
    W_log_order : forall a b, before (log x) a b -> before (fin x) a b;
  }.

  (* extension relation between states along a run *)
  Record ext (x y : st) : Prop := {
    E_ran : ran x ⊆ ran y;
    E_fin : fin x `prefix_of` fin y;
    E_log : log x `prefix_of` log y;
  }.

  Lemma ext_refl x : ext x x.
  Proof. split; done. Qed.
  Lemma ext_trans x y z : ext x y -> ext y z -> ext x z.
  Proof. intros [] []; split; by etrans. Qed.

  Lemma before_app_l l a b s : before l a b -> before (l ++ [s]) a b.
  Proof.
    intros (i & j & Hi & Hj & Hlt). exists i, j. split_and!; [| |done];
      apply lookup_app_l_Some; done.
  Qed.

  Lemma before_app_last l a s : a ∈ l -> before (l ++ [s]) a s.
  Proof.
    intros Ha. apply elem_of_list_lookup in Ha as [i Hi].
    exists i, (length l). split_and!.
    - by apply lookup_app_l_Some.
    - rewrite lookup_app_r; [|done]. by rewrite Nat.sub_diag.
    - by eapply lookup_lt_Some.
  Qed.

  Lemma before_app_inv l a b s :
    before (l ++ [s]) a b -> s ∉ l -> NoDup (l ++ [s]) ->
    before l a b \/ (b = s /\ a ∈ l).
  Proof.
    intros (i & j & Hi & Hj & Hlt) Hs Hnd.
    destruct (decide (j < length l)) as [Hj'|Hj'].
    - left. exists i, j. rewrite lookup_app_l in Hi by lia. rewrite lookup_app_l in Hj by lia. done.
    - right. assert (j = length l) as ->.
      { apply lookup_lt_Some in Hj. rewrite app_length in Hj. simpl in Hj. lia. }
      rewrite lookup_app_r in Hj by lia. rewrite Nat.sub_diag in Hj. simpl in Hj.
      injection Hj as <-. split; [done|].
      rewrite lookup_app_l in Hi by lia. by eapply elem_of_list_lookup_2.
  Qed.

  Lemma before_elem_l l a b : before l a b -> a ∈ l.
  Proof. intros (i & j & Hi & _). by eapply elem_of_list_lookup_2. Qed.

  Definition post (s : sid) (x x' : st) (r : option err) : Prop :=
    W x' /\ ext x x' /\ inprog x ⊆ inprog x' /\
    (r = None -> inprog x' = inprog x /\ is_Some (ran x' !! s)).

  Lemma go_post f :
    (forall s x x' r, W x -> run f s x = (x', r) -> post s x x' r) ->
    forall os acc x acc' x' r, W x -> go f os acc x = (acc', x', r) ->
      W x' /\ ext x x' /\ inprog x ⊆ inprog x' /\
      (r = None -> inprog x' = inprog x /\ forall o, o ∈ os -> is_Some (ran x' !! o)).
  Proof.
    intros IH. induction os as [|o os IHos]; intros acc x acc' x' r HW Hgo; simpl in Hgo.
    - injection Hgo as <- <- <-. split_and!; [done|apply ext_refl|done|].
      intros _. split; [done|]. intros o Ho. by apply elem_of_nil in Ho.
    - destruct (run f o x) as [x1 [e|]] eqn:Hr.
      + injection Hgo as <- <- <-. destruct (IH _ _ _ _ HW Hr) as (HW1 & He & Hsub & _).
        split_and!; try done.
      + destruct (IH _ _ _ _ HW Hr) as (HW1 & He1 & Hsub1 & Hok1).
        destruct (Hok1 eq_refl) as [Hin1 Hran1].
        destruct (IHos _ _ _ _ _ HW1 Hgo) as (HW2 & He2 & Hsub2 & Hok2).
        split_and!; [done|by eapply ext_trans|set_solver|].
        intros ->. destruct (Hok2 eq_refl) as [Hin2 Hran2]. split; [congruence|].
        intros o' [->|Ho']%elem_of_cons; [|by apply Hran2].
        destruct Hran1 as [v Hv]. exists v. eapply lookup_weaken; [exact Hv|apply He2].
  Qed.

  Lemma run_post f : forall s x x' r, W x -> run f s x = (x', r) -> post s x x' r.
  Proof.
    induction f as [|f IH]; intros s x x' r HW Hrun.
    { simpl in Hrun. injection Hrun as <- <-. split_and!; [done|apply ext_refl|done|done]. }
    rewrite run_unfold in Hrun.
    case_decide as Hran.
    { injection Hrun as <- <-. split_and!; [done|apply ext_refl|done|done]. }
    case_decide as Hin.
    { injection Hrun as <- <-. split_and!; [done|apply ext_refl|done|done]. }
    destruct (idx !! s) as [sg|] eqn:Hsg.
    2:{ injection Hrun as <- <-. split_and!; [done|apply ext_refl|done|done]. }
    simpl in Hrun.
    set (x0 := {| ran := ran x; inprog := {[s]} ∪ inprog x; log := log x; fin := fin x |}) in *.
    assert (HW0 : W x0).
    { destruct HW. split; simpl; try done.
      intros t [->%elem_of_singleton|Ht]%elem_of_union; [|by auto].
      apply eq_None_not_Some. done. }
    destruct (go f (owners sg) (self_stale sg) x0) as [[d x1] r1] eqn:Hgo.
    destruct (go_post f IH _ _ _ _ _ _ HW0 Hgo) as (HW1 & He1 & Hsub1 & Hok1).
    assert (Hext0 : ext x x0) by (split; done).
    destruct r1 as [e|].
    { injection Hrun as <- <-. split_and!; [done|by eapply ext_trans| |done].
      subst x0; simpl in *. set_solver. }
    injection Hrun as <- <-.
    destruct (Hok1 eq_refl) as [Hin1 Hown]. simpl in Hin1.
    assert (Hs1 : ran x1 !! s = None).
    { apply (W_disj _ HW1). rewrite Hin1. set_solver. }
    assert (Hsfin : s ∉ fin x1).
    { intros Hf. apply (W_dom _ HW1) in Hf. rewrite Hs1 in Hf. by destruct Hf. }
    assert (Hslog : s ∉ log x1).
    { intros Hl. apply (W_log_sub _ HW1) in Hl. congruence. }
    split_and!.
    - split; simpl.
      + apply NoDup_app. split_and!; [apply HW1| |apply NoDup_singleton].
        intros t Ht ->%elem_of_list_singleton. done.
      + intros t. rewrite elem_of_app, elem_of_list_singleton.
        destruct (decide (t = s)) as [->|Hne].
        * rewrite lookup_insert. split; eauto.
        * rewrite lookup_insert_ne by done. rewrite (W_dom _ HW1). split; [auto|]. intros [|]; done.
      + intros t [Ht Hts]%elem_of_difference.
        rewrite lookup_insert_ne by set_solver. by apply (W_disj _ HW1).
      + intros b sgb o [Hb| ->%elem_of_list_singleton]%elem_of_app Hsgb Ho.
        * apply before_app_l. by eapply (W_owners _ HW1).
        * assert (sgb = sg) as -> by congruence.
          apply before_app_last. apply (W_dom _ HW1). by apply Hown.
      + intros t Ht. destruct (d && has_cmd sg) eqn:Hd.
        * apply elem_of_app in Ht as [Ht| ->%elem_of_list_singleton].
          -- rewrite lookup_insert_ne; [by apply (W_log_sub _ HW1)|]. intros ->. done.
          -- rewrite lookup_insert. apply andb_true_iff in Hd as [-> _]. done.
        * rewrite lookup_insert_ne; [by apply (W_log_sub _ HW1)|]. intros ->. done.
      + destruct (d && has_cmd sg); [|apply HW1].
        apply NoDup_app. split_and!; [apply HW1| |apply NoDup_singleton].
        intros t Ht ->%elem_of_list_singleton. done.
      + intros a b Hab. destruct (d && has_cmd sg) eqn:Hd.
        * apply before_app_inv in Hab as [Hab|[-> Ha]]; [| |done|].
          -- apply before_app_l. by apply (W_log_order _ HW1).
          -- apply before_app_last. apply (W_dom _ HW1).
             apply (W_log_sub _ HW1) in Ha. eauto.
          -- apply NoDup_app. split_and!; [apply HW1| |apply NoDup_singleton].
             intros t Ht ->%elem_of_list_singleton. done.
        * apply before_app_l. by apply (W_log_order _ HW1).
    - eapply ext_trans; [exact Hext0|]. eapply ext_trans; [exact He1|].
      split; simpl.
      + by apply insert_subseteq.
      + by apply prefix_app_r.
      + destruct (d && has_cmd sg); [by apply prefix_app_r|done].
    - simpl. rewrite Hin1. set_solver.
    - intros _. simpl. split; [rewrite Hin1; set_solver|]. rewrite lookup_insert. eauto.
  Qed.

  (* ---------- consequences ---------- *)
  Definition edge (a b : sid) := exists sg, idx !! b = Some sg /\ a ∈ owners sg.   (* a owns an input of b *)

  Lemma before_irrefl l a : NoDup l -> ~ before l a a.
  Proof.
    intros Hnd (i & j & Hi & Hj & Hlt).
    pose proof (NoDup_lookup _ _ _ _ Hnd Hi Hj). lia.
  Qed.

  Lemma before_trans l a b c : NoDup l -> before l a b -> before l b c -> before l a c.
  Proof.
    intros Hnd (i & j & Hi & Hj & Hlt) (j' & k & Hj' & Hk & Hlt').
    pose proof (NoDup_lookup _ _ _ _ Hnd Hj Hj') as ->.
    exists i, k. split_and!; [done|done|lia].
  Qed.

  (* a path of >= 1 edges *)
  Inductive path : sid -> sid -> Prop :=
  | path_one a b : edge a b -> path a b
  | path_step a b c : edge a b -> path b c -> path a c.

  Lemma W_path_before x a b : W x -> path a b -> b ∈ fin x -> before (fin x) a b.
  Proof.
    intros HW Hp. induction Hp as [a b (sg & Hsg & Ho)|a b c (sg & Hsg & Ho) Hp IH]; intros Hb.
    - by eapply (W_owners _ HW).
    - specialize (IH Hb). eapply before_trans; [apply HW| |exact IH].
      eapply (W_owners _ HW); [|exact Hsg|exact Ho]. by eapply before_elem_l.
  Qed.

  (* finished stages are never on a cycle; hence no stage on a cycle is ever executed *)
  Theorem finished_acyclic x t : W x -> t ∈ fin x -> ~ path t t.
  Proof.
    intros HW Ht Hp. eapply before_irrefl; [apply HW|]. by eapply W_path_before.
  Qed.

  Theorem executed_not_on_cycle f s x x' r t :
    W x -> run f s x = (x', r) -> t ∈ log x' -> ~ path t t.
  Proof.
    intros HW Hrun Ht. destruct (run_post _ _ _ _ _ HW Hrun) as (HW' & _).
    eapply finished_acyclic; [exact HW'|]. apply (W_dom _ HW').
    apply (W_log_sub _ HW') in Ht. eauto.
  Qed.

  Theorem success_visits_closure f s x x' a :
    W x -> run f s x = (x', None) -> path a s -> a ∈ fin x'.
  Proof.
    intros HW Hrun Hp. destruct (run_post _ _ _ _ _ HW Hrun) as (HW' & _ & _ & Hok).
    destruct (Hok eq_refl) as [_ Hs]. apply (W_dom _ HW') in Hs.
    eapply before_elem_l. by eapply W_path_before.
  Qed.

  Theorem cycle_refused f s x x' r a :
    W x -> run f s x = (x', r) -> (a = s \/ path a s) -> path a a -> r <> None.
  Proof.
    intros HW Hrun Ha Hcyc ->.
    destruct (run_post _ _ _ _ _ HW Hrun) as (HW' & _ & _ & Hok).
    destruct (Hok eq_refl) as [_ Hs]. apply (W_dom _ HW') in Hs.
    eapply (finished_acyclic x' a HW'); [|done].
    destruct Ha as [->|Hp]; [done|]. eapply success_visits_closure; [exact HW|exact Hrun|exact Hp].
  Qed.

  Theorem order_in_log f s x x' r a b :
    W x -> run f s x = (x', r) -> edge a b -> a ∈ log x' -> b ∈ log x' -> before (log x') a b.
  Proof.
    intros HW Hrun (sg & Hsg & Ho) Ha Hb.
    destruct (run_post _ _ _ _ _ HW Hrun) as (HW' & _).
    assert (Hfb : b ∈ fin x').
    { apply (W_dom _ HW'). apply (W_log_sub _ HW') in Hb. eauto. }
    pose proof (W_owners _ HW' _ _ _ Hfb Hsg Ho) as Hab.
    apply elem_of_list_lookup in Ha as [i Hi]. apply elem_of_list_lookup in Hb as [j Hj].
    destruct (lt_eq_lt_dec i j) as [[Hlt| ->]|Hgt].
    - exists i, j. done.
    - exfalso. assert (a = b) as -> by congruence. eapply before_irrefl; [apply HW'|exact Hab].
    - exfalso. assert (Hba : before (fin x') b a).
      { apply (W_log_order _ HW'). exists j, i. done. }
      eapply before_irrefl; [apply HW'|]. eapply before_trans; [apply HW'|exact Hab|exact Hba].
  Qed.

  (* ---------- fuel ---------- *)
  Definition known (x : st) := forall t, t ∈ inprog x -> is_Some (idx !! t).

  Lemma go_fuel f :
    (forall s x, W x -> known x -> size idx < f + size (inprog x) -> (run f s x).2 <> Some OutOfFuel) ->
    forall os acc x, W x -> known x -> size idx < f + size (inprog x) -> (go f os acc x).2 <> Some OutOfFuel.
  Proof.
    intros IH. induction os as [|o os IHos]; intros acc x HW Hk Hsz; simpl; [done|].
    destruct (run f o x) as [x1 [e|]] eqn:Hr.
    - simpl. specialize (IH o x HW Hk Hsz). rewrite Hr in IH. done.
    - destruct (run_post _ _ _ _ _ HW Hr) as (HW1 & _ & _ & Hok).
      destruct (Hok eq_refl) as [Hin _].
      apply IHos; [done| |by rewrite Hin]. intros t. rewrite Hin. apply Hk.
  Qed.

  Lemma run_fuel f : forall s x,
    W x -> known x -> size idx < f + size (inprog x) -> (run f s x).2 <> Some OutOfFuel.
  Proof.
    induction f as [|f IH]; intros s x HW Hk Hsz.
    { exfalso. assert (size (inprog x) <= size idx); [|lia].
      rewrite <-(size_dom (D:=gset sid) idx). apply subseteq_size.
      intros t Ht. apply elem_of_dom. by apply Hk. }
    rewrite run_unfold. repeat case_decide; try done.
    destruct (idx !! s) as [sg|] eqn:Hsg; [|done]. simpl.
    set (x0 := {| ran := ran x; inprog := {[s]} ∪ inprog x; log := log x; fin := fin x |}).
    assert (HW0 : W x0).
    { destruct HW. split; simpl; try done.
      intros t [->%elem_of_singleton|Ht]%elem_of_union; [|by auto].
      by apply eq_None_not_Some. }
    assert (Hk0 : known x0).
    { intros t [->%elem_of_singleton|Ht]%elem_of_union; [eauto|by apply Hk]. }
    assert (Hsz0 : size idx < f + size (inprog x0)).
    { subst x0; simpl. rewrite size_union by set_solver. rewrite size_singleton. lia. }
    pose proof (go_fuel f IH (owners sg) (self_stale sg) x0 HW0 Hk0 Hsz0) as Hgo.
    destruct (go f (owners sg) (self_stale sg) x0) as [[d x1] [e|]]; simpl in *; done.
  Qed.

  Definition init : st := {| ran := ∅; inprog := ∅; log := []; fin := [] |}.
  Lemma W_init : W init.
  Proof.
    split; simpl.
    - apply NoDup_nil_2.
    - intros s. rewrite lookup_empty. split; [by intros []|by intros ?%elem_of_nil].
    - intros s ?%elem_of_empty. done.
    - intros b sg o ?%elem_of_nil. done.
    - intros s ?%elem_of_nil. done.
    - apply NoDup_nil_2.
    - intros a b (i & j & Hi & _). done.
  Qed.

  Theorem fuel_enough s : (run (S (size idx)) s init).2 <> Some OutOfFuel.
  Proof. apply run_fuel; [apply W_init|intros t ?%elem_of_empty; done|simpl; lia]. Qed.
End run.

Print Assumptions order_in_log.
Print Assumptions cycle_refused.
Print Assumptions fuel_enough.
