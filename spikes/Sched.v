From Coq Require Import Lia Arith Bool List.
Import ListNotations.

(* Spike: flat worker-pool instance of commitDirArtifact (one directory level), counter abstraction.
   Children are opaque finite actions (by induction on the tree they terminate).
   The shared pool is adversarial: spawn_shared is allowed when own use < S, never needed. *)

Record cfg := {
  q : nat;  closed : bool;  sp : nat;  sp_done : bool;
  iD : nat; bD : nat; fD : nat;      (* dedicated-token workers: idle / busy / holding a result *)
  iS : nat; bS : nat; fS : nat;      (* shared-token workers *)
  col : nat; ready : bool;
}.

Section flat.
  Context (N D S : nat).

  Definition upd (c : cfg) q' closed' sp' spd' iD' bD' fD' iS' bS' fS' col' ready' :=
    {| q := q'; closed := closed'; sp := sp'; sp_done := spd'; iD := iD'; bD := bD'; fD := fD';
       iS := iS'; bS := bS'; fS := fS'; col := col'; ready := ready' |}.

  Inductive step : cfg -> cfg -> Prop :=
  | spawn_ded c : sp_done c = false -> sp c < N -> ready c = false -> iD c + bD c + fD c < D ->
      step c (upd c (q c) (closed c) (1 + sp c) false (1 + iD c) (bD c) (fD c) (iS c) (bS c) (fS c) (col c) (ready c))
  | spawn_shr c : sp_done c = false -> sp c < N -> ready c = false -> iS c + bS c + fS c < S ->
      step c (upd c (q c) (closed c) (1 + sp c) false (iD c) (bD c) (fD c) (1 + iS c) (bS c) (fS c) (col c) (ready c))
  | sp_stop c : sp_done c = false -> (sp c = N \/ ready c = true) ->
      step c (upd c (q c) (closed c) (sp c) true (iD c) (bD c) (fD c) (iS c) (bS c) (fS c) (col c) (ready c))
  | take_d c n m : q c = 1 + n -> iD c = 1 + m ->
      step c (upd c n (closed c) (sp c) (sp_done c) m (1 + bD c) (fD c) (iS c) (bS c) (fS c) (col c) (ready c))
  | take_s c n m : q c = 1 + n -> iS c = 1 + m ->
      step c (upd c n (closed c) (sp c) (sp_done c) (iD c) (bD c) (fD c) m (1 + bS c) (fS c) (col c) (ready c))
  | close c : q c = 0 -> closed c = false ->
      step c (upd c 0 true (sp c) (sp_done c) (iD c) (bD c) (fD c) (iS c) (bS c) (fS c) (col c) (ready c))
  | finish_d c m : bD c = 1 + m ->
      step c (upd c (q c) (closed c) (sp c) (sp_done c) (iD c) m (1 + fD c) (iS c) (bS c) (fS c) (col c) (ready c))
  | finish_s c m : bS c = 1 + m ->
      step c (upd c (q c) (closed c) (sp c) (sp_done c) (iD c) (bD c) (fD c) (iS c) m (1 + fS c) (col c) (ready c))
  | deliver_d c m : fD c = 1 + m -> col c < N ->
      step c (upd c (q c) (closed c) (sp c) (sp_done c) (1 + iD c) (bD c) m (iS c) (bS c) (fS c) (1 + col c) (ready c))
  | deliver_s c m : fS c = 1 + m -> col c < N ->
      step c (upd c (q c) (closed c) (sp c) (sp_done c) (iD c) (bD c) (fD c) (1 + iS c) (bS c) m (1 + col c) (ready c))
  | exit_d c m : iD c = 1 + m -> closed c = true ->
      step c (upd c (q c) (closed c) (sp c) (sp_done c) m (bD c) (fD c) (iS c) (bS c) (fS c) (col c) (ready c))
  | exit_s c m : iS c = 1 + m -> closed c = true ->
      step c (upd c (q c) (closed c) (sp c) (sp_done c) (iD c) (bD c) (fD c) m (bS c) (fS c) (col c) (ready c))
  | collected c : col c = N -> ready c = false ->
      step c (upd c (q c) (closed c) (sp c) (sp_done c) (iD c) (bD c) (fD c) (iS c) (bS c) (fS c) (col c) true).

  Definition workers (c : cfg) := iD c + bD c + fD c + iS c + bS c + fS c.
  Definition final (c : cfg) := sp_done c = true /\ workers c = 0 /\ ready c = true /\ closed c = true.
  Definition init : cfg := upd (Build_cfg 0 false 0 false 0 0 0 0 0 0 0 false) N false 0 false 0 0 0 0 0 0 0 false.

  Record Inv (c : cfg) : Prop := {
    I_sum : q c + bD c + bS c + fD c + fS c + col c = N;
    I_sp : sp c <= N;
    I_open : closed c = false -> workers c = sp c;
    I_closed : closed c = true -> q c = 0;
    I_ready : ready c = true -> col c = N;
    I_ded : iD c + bD c + fD c <= D;
    I_shr : iS c + bS c + fS c <= S;
    I_spd : sp_done c = true -> sp c = N \/ ready c = true;
  }.

  Definition measure (c : cfg) : nat :=
    3 * q c + 3 * (bD c + bS c) + 2 * (fD c + fS c) + (iD c + iS c) + 2 * (N - sp c)
    + (if closed c then 0 else 1) + (if ready c then 0 else 1) + (if sp_done c then 0 else 1).

  Lemma inv_init : Inv init.
  Proof. split; simpl; unfold workers; simpl; try lia; try discriminate; auto. Qed.

  Lemma inv_step c c' : Inv c -> step c c' -> Inv c'.
  Proof.
    intros [] Hs; inversion Hs; subst; split; unfold workers in *; simpl in *;
      try lia; try discriminate; try tauto; intros;
      repeat match goal with
      | H : ?x = true -> _ , H' : ?x = true |- _ => specialize (H H')
      | H : ?x = false -> _ , H' : ?x = false |- _ => specialize (H H')
      end; try lia; try congruence; auto.
  Qed.

  (* termination: every step strictly decreases the measure *)
  Theorem step_decreases c c' : Inv c -> step c c' -> measure c' < measure c.
  Proof.
    intros [] Hs; inversion Hs; subst; unfold measure; simpl in *;
      repeat match goal with
      | H : ?x = true |- context [if ?x then _ else _] => rewrite H
      | H : ?x = false |- context [if ?x then _ else _] => rewrite H
      end;
      repeat match goal with |- context [if ?x then _ else _] => destruct x end; lia.
  Qed.

  (* progress: with at least one dedicated token, a non-final state has a step that does not
     need the shared pool *)
  Inductive is_shared_spawn : cfg -> cfg -> Prop :=
  | iss c c' : sp c' = 1 + sp c -> iS c' = 1 + iS c -> is_shared_spawn c c'.

  Theorem progress c : 1 <= D -> Inv c -> ~ final c -> exists c', step c c' /\ ~ is_shared_spawn c c'.
  Proof.
    intros HD [] Hnf.
    (* a busy worker can finish *)
    destruct (bD c) as [|m] eqn:EbD.
    2:{ eexists; split; [eapply finish_d; eauto|]. intros Hx; inversion Hx; simpl in *; lia. }
    destruct (bS c) as [|m] eqn:EbS.
    2:{ eexists; split; [eapply finish_s; eauto|]. intros Hx; inversion Hx; simpl in *; lia. }
    (* a full worker can deliver *)
    destruct (fD c) as [|m] eqn:EfD.
    2:{ eexists; split; [eapply deliver_d; eauto; lia|]. intros Hx; inversion Hx; simpl in *; lia. }
    destruct (fS c) as [|m] eqn:EfS.
    2:{ eexists; split; [eapply deliver_s; eauto; lia|]. intros Hx; inversion Hx; simpl in *; lia. }
    (* only idle workers remain *)
    destruct (q c) as [|n] eqn:Eq.
    - (* nothing left to hand out *)
      destruct (closed c) eqn:Ecl.
      2:{ eexists; split; [eapply close; eauto|]. intros Hx; inversion Hx; simpl in *; lia. }
      destruct (iD c) as [|m] eqn:EiD.
      2:{ eexists; split; [eapply exit_d; eauto|]. intros Hx; inversion Hx; simpl in *; lia. }
      destruct (iS c) as [|m] eqn:EiS.
      2:{ eexists; split; [eapply exit_s; eauto|]. intros Hx; inversion Hx; simpl in *; lia. }
      destruct (ready c) eqn:Erd.
      2:{ eexists; split; [eapply collected; eauto; lia|]. intros Hx; inversion Hx; simpl in *; lia. }
      destruct (sp_done c) eqn:Esd.
      2:{ eexists; split; [eapply sp_stop; eauto|]. intros Hx; inversion Hx; simpl in *; lia. }
      exfalso. apply Hnf. unfold final, workers. rewrite EbD, EbS, EfD, EfS, EiD, EiS. auto.
    - (* entries remain *)
      destruct (iD c) as [|m] eqn:EiD.
      2:{ eexists; split; [eapply take_d; eauto|]. intros Hx; inversion Hx; simpl in *; lia. }
      destruct (iS c) as [|m] eqn:EiS.
      2:{ eexists; split; [eapply take_s; eauto|]. intros Hx; inversion Hx; simpl in *; lia. }
      (* no workers at all: the channel is still open, so nobody has been spawned yet *)
      destruct (closed c) eqn:Ecl; [specialize (I_closed0 eq_refl); lia|].
      specialize (I_open0 eq_refl). unfold workers in I_open0.
      rewrite EbD, EbS, EfD, EfS, EiD, EiS in I_open0. simpl in I_open0.
      destruct (ready c) eqn:Erd; [specialize (I_ready0 eq_refl); lia|].
      destruct (sp_done c) eqn:Esd.
      { destruct (I_spd0 eq_refl) as [?|?]; [lia|discriminate]. }
      eexists; split; [eapply spawn_ded; eauto; lia|].
      intros Hx; inversion Hx; simpl in *; lia.
  Qed.

  (* results: in a final state every entry has been delivered exactly once and all tokens are back *)
  Theorem final_complete c : Inv c -> final c -> col c = N /\ q c = 0 /\ workers c = 0.
  Proof. intros [] (H1 & H2 & H3 & H4). unfold workers in *. split; [auto|]. split; [auto|lia]. Qed.
End flat.

Print Assumptions progress.
Print Assumptions step_decreases.
