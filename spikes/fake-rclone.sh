#!/bin/bash
# fake rclone: supports "copy --files-from - SRC DST" for local directories
args=("$@"); n=${#args[@]}; src=${args[$((n-2))]}; dst=${args[$((n-1))]}
rc=0
while IFS= read -r f; do
  [ -z "$f" ] && continue
  if [ ! -f "$src/$f" ]; then echo "fake-rclone: missing $src/$f" >&2; rc=3; continue; fi
  mkdir -p "$(dirname "$dst/$f")"
  if [ -e "$dst/$f" ]; then continue; fi
  cp "$src/$f" "$dst/$f"; chmod 644 "$dst/$f"
done
exit $rc
