From stdpp Require Import gmap strings list.
From Coq Require Import Strings.Byte.

Definition bytes := list byte.
Definition digest := string.

Inductive tree :=
| TFile (b : bytes)
| TDir (es : list (string * tree)).

(* manifest: entry name -> (digest, is_dir) *)
Definition manifest := list (string * (digest * bool)).

Section model.
  Context (H : bytes -> digest).
  Context (enc : manifest -> bytes) (dec : bytes -> option manifest).
  Hypothesis H_inj : forall a b, H a = H b -> a = b.
  Hypothesis dec_enc : forall m, dec (enc m) = Some m.

  Notation cache := (gmap digest bytes).

  Definition put (c : cache) (b : bytes) : digest * cache := (H b, <[H b := b]> c).

  Fixpoint commit (t : tree) (c : cache) : digest * cache :=
    match t with
    | TFile b => put c b
    | TDir es =>
      let fix go (es : list (string * tree)) (c : cache) : manifest * cache :=
        match es with
        | [] => ([], c)
        | (n, t) :: es' =>
          let '(d, c1) := commit t c in
          let '(m, c2) := go es' c1 in
          ((n, (d, match t with TDir _ => true | _ => false end)) :: m, c2)
        end in
      let '(m, c') := go es c in
      put c' (enc m)
    end.

  Fixpoint checkout (fuel : nat) (d : digest) (isdir : bool) (c : cache) : option tree :=
    match fuel with
    | O => None
    | S f =>
      b ← c !! d;
      if isdir then
        m ← dec b;
        es ← mapM (fun '(n, (d', isd)) => t ← checkout f d' isd c; Some (n, t)) m;
        Some (TDir es)
      else Some (TFile b)
    end.

  Definition consistent (c : cache) := forall d b, c !! d = Some b -> d = H b.

  Fixpoint height (t : tree) : nat :=
    match t with
    | TFile _ => 1
    | TDir es => S (foldr (fun '(_, t) acc => max (height t) acc) 0 es)
    end.

  Definition isdir (t : tree) := match t with TDir _ => true | _ => false end.

  Lemma tree_ind' (P : tree -> Prop) :
    (forall b, P (TFile b)) ->
    (forall es, Forall (fun nt => P nt.2) es -> P (TDir es)) ->
    forall t, P t.
  Proof.
    intros Hf Hd. fix IH 1. intros [b|es]; [apply Hf|].
    apply Hd. induction es as [|[n t] es IHes]; constructor; [apply IH|apply IHes].
  Qed.

  (* the inner loop as a top-level function, to state lemmas about it *)
  Fixpoint commit_list (es : list (string * tree)) (c : cache) : manifest * cache :=
    match es with
    | [] => ([], c)
    | (n, t) :: es' =>
      let '(d, c1) := commit t c in
      let '(m, c2) := commit_list es' c1 in
      ((n, (d, isdir t)) :: m, c2)
    end.

  Lemma commit_dir_unfold es c :
    commit (TDir es) c = let '(m, c') := commit_list es c in put c' (enc m).
  Proof.
    simpl. 
    assert (Hgo : forall es c,
      (fix go (es : list (string * tree)) (c : cache) : manifest * cache :=
        match es with
        | [] => ([], c)
        | (n, t) :: es' =>
          let '(d, c1) := commit t c in
          let '(m, c2) := go es' c1 in
          ((n, (d, match t with TDir _ => true | _ => false end)) :: m, c2)
        end) es c = commit_list es c).
    { clear. induction es as [|[n t] es IH]; intros c; simpl; [done|].
      destruct (commit t c) as [d c1]. rewrite IH. done. }
    rewrite Hgo. done.
  Qed.

  Lemma put_spec c b d c' :
    consistent c -> put c b = (d, c') ->
    d = H b /\ c ⊆ c' /\ consistent c' /\ c' !! d = Some b.
  Proof.
    intros Hc [= <- <-]. split; [done|]. split; [|split].
    - destruct (c !! H b) as [b'|] eqn:E.
      + pose proof (Hc _ _ E) as E'. apply H_inj in E'. subst b'.
        rewrite insert_id; done.
      + by apply insert_subseteq.
    - intros d b'. destruct (decide (d = H b)) as [->|Hne].
      + rewrite lookup_insert. by intros [= ->].
      + rewrite lookup_insert_ne; [apply Hc|done].
    - by rewrite lookup_insert.
  Qed.

  Lemma checkout_mono f : forall d isd c c' t,
    c ⊆ c' -> checkout f d isd c = Some t -> checkout f d isd c' = Some t.
  Proof.
    induction f as [|f IH]; intros d isd c c' t Hsub; simpl; [done|].
    destruct (c !! d) as [b|] eqn:E; simpl; [|done].
    rewrite (lookup_weaken _ _ _ _ E Hsub). simpl.
    destruct isd; [|done].
    destruct (dec b) as [m|]; simpl; [|done].
    intros Hm. destruct (mapM _ m) as [es|] eqn:Em in Hm; simpl in Hm; [|done].
    injection Hm as <-.
    assert (mapM (λ '(n, (d', isd)), t ← checkout f d' isd c'; Some (n, t)) m = Some es) as ->; [|done].
    apply mapM_Some in Em. apply mapM_Some.
    eapply Forall2_impl; [exact Em|].
    intros [n [d' isd]] [n' t']. simpl.
    destruct (checkout f d' isd c) as [t''|] eqn:Ec; simpl; [|done].
    intros [= <- <-]. by rewrite (IH _ _ _ _ _ Hsub Ec).
  Qed.

  Lemma checkout_fuel_mono f f' d isd c t :
    f <= f' -> checkout f d isd c = Some t -> checkout f' d isd c = Some t.
  Proof.
    revert f' d isd t. induction f as [|f IH]; intros f' d isd t Hle; simpl; [done|].
    destruct f' as [|f']; [lia|]. simpl.
    destruct (c !! d) as [b|]; simpl; [|done].
    destruct isd; [|done].
    destruct (dec b) as [m|]; simpl; [|done].
    intros Hm. destruct (mapM _ m) as [es|] eqn:Em in Hm; simpl in Hm; [|done].
    injection Hm as <-.
    assert (mapM (λ '(n, (d', isd)), t ← checkout f' d' isd c; Some (n, t)) m = Some es) as ->; [|done].
    apply mapM_Some in Em. apply mapM_Some.
    eapply Forall2_impl; [exact Em|].
    intros [n [d' isd]] [n' t']. simpl.
    destruct (checkout f d' isd c) as [t''|] eqn:Ec; simpl; [|done].
    intros [= <- <-]. rewrite (IH f' _ _ _ ltac:(lia) Ec). done.
  Qed.

  Definition roundtrip_P (t : tree) := forall c d c',
    consistent c -> commit t c = (d, c') ->
    c ⊆ c' /\ consistent c' /\ checkout (height t) d (isdir t) c' = Some t.

  Theorem roundtrip t : roundtrip_P t.
  Proof.
    induction t as [b|es IHes] using tree_ind'; intros c d c' Hc Hcommit.
    - simpl in Hcommit. destruct (put_spec _ _ _ _ Hc Hcommit) as (-> & Hsub & Hc' & Hl).
      split; [done|]. split; [done|]. simpl. rewrite Hl. done.
    - rewrite commit_dir_unfold in Hcommit.
      destruct (commit_list es c) as [m c1] eqn:Ecl.
      (* the list lemma *)
      assert (Hlist : c ⊆ c1 /\ consistent c1 /\
                forall c2, c1 ⊆ c2 ->
                mapM (λ '(n, (d', isd)), t ← checkout (foldr (fun '(_, t) acc => max (height t) acc) 0 es) d' isd c2; Some (n, t)) m = Some es).
      { clear Hcommit. revert c m c1 Hc Ecl.
        induction es as [|[n t] es IHl]; intros c m c1 Hc Ecl; simpl in Ecl.
        - injection Ecl as <- <-. split; [done|]. split; [done|]. intros; done.
        - apply Forall_cons in IHes as [IHt IHes']. simpl in IHt.
          destruct (commit t c) as [dt ct] eqn:Et.
          destruct (commit_list es ct) as [m' c2'] eqn:El. injection Ecl as <- <-.
          destruct (IHt _ _ _ Hc Et) as (Hs1 & Hc1 & Hco).
          destruct (IHl IHes' _ _ _ Hc1 El) as (Hs2 & Hc2 & Hrest).
          split; [by etrans|]. split; [done|].
          intros c2 Hs3. simpl.
          assert (Hsub : ct ⊆ c2) by (by etrans).
          assert (Hfirst : checkout (height t `max` foldr (λ '(_, t0) (acc : nat), height t0 `max` acc) 0 es) dt (isdir t) c2 = Some t).
          { eapply checkout_fuel_mono; [|eapply checkout_mono; [exact Hsub|exact Hco]]. lia. }
          rewrite Hfirst. simpl.
          specialize (Hrest c2 Hs3).
          assert (Hr : mapM (λ '(n0, (d', isd)), t0 ← checkout (height t `max` foldr (λ '(_, t0) (acc : nat), height t0 `max` acc) 0 es) d' isd c2; Some (n0, t0)) m' = Some es).
          { apply mapM_Some in Hrest. apply mapM_Some.
            eapply Forall2_impl; [exact Hrest|].
            intros [n0 [d0 i0]] [n1 t1]. simpl.
            destruct (checkout _ d0 i0 c2) as [t2|] eqn:E2; simpl; [|done].
            intros [= <- <-].
            erewrite checkout_fuel_mono; [done| |exact E2]. lia. }
          rewrite Hr. done. }
      destruct Hlist as (Hs1 & Hc1 & Hmap).
      destruct (put_spec _ _ _ _ Hc1 Hcommit) as (-> & Hs2 & Hc2 & Hl).
      split; [by etrans|]. split; [done|].
      simpl. rewrite Hl. simpl. rewrite dec_enc. simpl.
      rewrite (Hmap _ Hs2). done.
  Qed.
End model.

Print Assumptions roundtrip.

