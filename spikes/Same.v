From Coq Require Import List Lia Arith Bool.
Import ListNotations.

(* Spike: fsutil.SameContents — fixed-size buffers, each Read overwrites the first n bytes only,
   and the code compares the WHOLE buffers (bytes.Equal(bytesA, bytesB)), not the n bytes read.
   Regular-file reads: a Read returns min(B, remaining) bytes; after the last byte, (0, EOF). *)

Section same.
  Context {A : Type} (eqb : A -> A -> bool) (eqb_spec : forall x y, eqb x y = true <-> x = y).
  Variable B : nat.
  Hypothesis B_pos : 1 <= B.

  Fixpoint list_eqb (l1 l2 : list A) : bool :=
    match l1, l2 with
    | [], [] => true
    | x :: l1, y :: l2 => eqb x y && list_eqb l1 l2
    | _, _ => false
    end.

  Lemma list_eqb_spec l1 l2 : list_eqb l1 l2 = true <-> l1 = l2.
  Proof.
    revert l2; induction l1 as [|x l1 IH]; intros [|y l2]; simpl; split; intros H; try congruence; try discriminate.
    - apply andb_true_iff in H as [H1 H2]. apply eqb_spec in H1. apply IH in H2. congruence.
    - injection H as -> ->. apply andb_true_iff. split; [now apply eqb_spec|now apply IH].
  Qed.

  (* overwrite the first |new| cells of a buffer *)
  Definition overwrite (new buf : list A) : list A := new ++ skipn (length new) buf.

  (* one Read: data returned, rest of the file, EOF flag (true only on the empty read at the end) *)
  Definition read (file : list A) : list A * list A * bool :=
    match file with
    | [] => ([], [], true)
    | _ => (firstn B file, skipn B file, false)
    end.

  Fixpoint loop (fuel : nat) (fa fb bufA bufB : list A) : bool :=
    match fuel with
    | O => false
    | S f =>
      let '(da, fa', eofA) := read fa in
      let '(db, fb', eofB) := read fb in
      let bufA' := overwrite da bufA in
      let bufB' := overwrite db bufB in
      if negb (length da =? length db) then false
      else if negb (list_eqb bufA' bufB') then false
      else if negb (Bool.eqb eofA eofB) then false
      else if eofA then true
      else loop f fa' fb' bufA' bufB'
    end.

  Definition same_contents (zero : A) (a b : list A) : bool :=
    loop (S (length a)) a b (repeat zero B) (repeat zero B).

  Lemma overwrite_length new buf : length new <= length buf -> length (overwrite new buf) = length buf.
  Proof. intros H. unfold overwrite. rewrite app_length, skipn_length. lia. Qed.

  (* with equal stale buffers of the same length, comparing whole buffers = comparing the data read *)
  Lemma overwrite_eq da db buf :
    length da = length db -> (overwrite da buf = overwrite db buf <-> da = db).
  Proof.
    intros Hl. unfold overwrite. rewrite Hl. split; [|congruence].
    intros H. apply app_inv_tail in H. exact H.
  Qed.

  Theorem loop_correct : forall fuel fa fb buf,
    length fa < fuel -> length buf = B ->
    loop fuel fa fb buf buf = list_eqb fa fb.
  Proof.
    induction fuel as [|f IH]; intros fa fb buf Hf Hb; [lia|].
    cbn [loop]. unfold read.
    destruct fa as [|x fa]; destruct fb as [|y fb].
    - (* both empty: both EOF, buffers untouched *)
      cbn. assert (list_eqb buf buf = true) as -> by now apply list_eqb_spec. reflexivity.
    - (* a exhausted, b not: lengths of the reads differ (0 vs >= 1) *)
      cbn [length firstn]. destruct B as [|B']; [lia|]. reflexivity.
    - cbn [length firstn]. destruct B as [|B']; [lia|]. reflexivity.
    - set (da := firstn B (x :: fa)). set (db := firstn B (y :: fb)).
      destruct (length da =? length db) eqn:El; cbn [negb].
      2:{ (* different read sizes => different file lengths => files differ *)
        symmetry. apply not_true_iff_false. intros He. apply list_eqb_spec in He.
        apply Nat.eqb_neq in El. apply El. subst da db. now rewrite He. }
      apply Nat.eqb_eq in El.
      destruct (list_eqb (overwrite da buf) (overwrite db buf)) eqn:Eq; cbn [negb].
      2:{ symmetry. apply not_true_iff_false. intros He. apply list_eqb_spec in He.
          apply not_true_iff_false in Eq. apply Eq. apply list_eqb_spec. subst da db. now rewrite He. }
      apply list_eqb_spec in Eq. pose proof Eq as Eq'. apply overwrite_eq in Eq'; [|exact El].
      cbn [Bool.eqb negb]. rewrite Eq.
      rewrite IH.
      + (* the remainders decide *)
        rewrite <- (firstn_skipn B (x :: fa)) at 2. rewrite <- (firstn_skipn B (y :: fb)) at 2.
        fold da db. rewrite Eq'.
        clear -eqb_spec. induction db as [|z db IHd]; [reflexivity|]. cbn.
        assert (eqb z z = true) as -> by now apply eqb_spec. exact IHd.
      + rewrite skipn_length. cbn [length] in *. lia.
      + rewrite <- Eq. rewrite overwrite_length; [exact Hb|]. subst da. rewrite firstn_length. lia.
  Qed.

  Theorem same_contents_correct zero a b : same_contents zero a b = true <-> a = b.
  Proof.
    unfold same_contents. rewrite loop_correct; [apply list_eqb_spec|lia|apply repeat_length].
  Qed.
End same.

Print Assumptions same_contents_correct.
