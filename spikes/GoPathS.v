From Coq Require Import NArith List Bool.
Import ListNotations.
Local Open Scope N_scope.

(* Spike: path/filepath.Clean, Join (2 args), Dir, IsAbs on Unix, bytes as N; component model. *)
Definition slash : N := 47.
Definition dot : N := 46.

Fixpoint split_aux (s : list N) (cur : list N) : list (list N) :=
  match s with
  | [] => [rev cur]
  | c :: r => if c =? slash then rev cur :: split_aux r [] else split_aux r (c :: cur)
  end.
Definition split (s : list N) : list (list N) := split_aux s [].

Fixpoint join_comps (cs : list (list N)) : list N :=
  match cs with
  | [] => []
  | [c] => c
  | c :: r => c ++ slash :: join_comps r
  end.

Definition is_dot (c : list N) := match c with [d] => d =? dot | _ => false end.
Definition is_dotdot (c : list N) := match c with [d1; d2] => (d1 =? dot) && (d2 =? dot) | _ => false end.
Definition is_empty (c : list N) := match c with [] => true | _ => false end.

(* stack is kept reversed (top first) *)
Fixpoint clean_comps (rooted : bool) (cs : list (list N)) (stack : list (list N)) : list (list N) :=
  match cs with
  | [] => rev stack
  | c :: r =>
    if is_empty c || is_dot c then clean_comps rooted r stack
    else if is_dotdot c then
      match stack with
      | top :: rest => if is_dotdot top then clean_comps rooted r (c :: stack) else clean_comps rooted r rest
      | [] => if rooted then clean_comps rooted r [] else clean_comps rooted r [c]
      end
    else clean_comps rooted r (c :: stack)
  end.

Definition is_abs (s : list N) : bool := match s with c :: _ => c =? slash | [] => false end.

Definition clean (s : list N) : list N :=
  match s with
  | [] => [dot]
  | _ =>
    let rooted := is_abs s in
    let out := join_comps (clean_comps rooted (split s) []) in
    if rooted then slash :: out else match out with [] => [dot] | _ => out end
  end.

Definition join2 (a b : list N) : list N :=
  match a, b with
  | [], [] => []
  | [], _ => clean b
  | _, [] => clean a
  | _, _ => clean (a ++ slash :: b)
  end.

(* Dir: everything up to the last slash, cleaned *)
Fixpoint last_slash_prefix (s : list N) (acc cur : list N) : list N :=
  (* acc = prefix up to and including the last slash seen (reversed), cur = reversed scan *)
  match s with
  | [] => rev acc
  | c :: r => if c =? slash then last_slash_prefix r (c :: cur) (c :: cur) else last_slash_prefix r acc (c :: cur)
  end.
Definition dir (s : list N) : list N := clean (last_slash_prefix s [] []).
