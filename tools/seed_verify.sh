#!/bin/bash
# usage: seed_verify.sh <PROP> <seed-out-dir> <seed-worktree> <name> [extra props to check...]
# Confirms a seeded change independently (tests pass, demo passes without / fails with the change)
# in a scratch worktree, then runs the registered check(s) against /repo with the change applied
# and reverts. Writes /verif/seeded/<name>/.
set -u
PROP=$1; OUT=$2; AGWT=$3; NAME=$4; shift 4; EXTRA="$@"
export GOFLAGS=-mod=mod GOPROXY=off GOSUMDB=off GOTOOLCHAIN=local
SCR=/tmp/seedv/$NAME
rm -rf $SCR; git -C /repo worktree prune; mkdir -p /tmp/seedv
git -C /repo worktree add -q --detach $SCR ${SEED_BASE:-HEAD} || exit 2
DEMO=$SCR/.demo.sh
if [ -f $OUT/demo.sh ]; then sed "s|$AGWT|$SCR|g" $OUT/demo.sh > $DEMO; chmod +x $DEMO; else echo "no demo.sh"; fi
res_before=NA; res_after=NA; tests=NA
if [ -f $DEMO ]; then (cd $SCR && timeout 600 bash $DEMO >/tmp/seedv/$NAME.before.log 2>&1); res_before=$?; fi
(cd $SCR && git apply $OUT/patch.diff) || { echo "patch does not apply"; git -C /repo worktree remove --force $SCR; exit 2; }
(cd $SCR && go build ./... && go test -vet=off -count=1 ./... >/tmp/seedv/$NAME.tests.log 2>&1); tests=$?
if [ -f $DEMO ]; then (cd $SCR && timeout 600 bash $DEMO >/tmp/seedv/$NAME.after.log 2>&1); res_after=$?; fi
echo "demo before=$res_before (want 0)  tests=$tests (want 0)  demo after=$res_after (want 1)"
# run our checks with the change applied: on /repo itself (git apply ... git checkout -- .) unless
# SEED_SCRATCH=1, in which case the scratch worktree (which has the change applied) is checked
# through VERIF_REPO, so that /repo stays untouched while other runs use it
declare -A RES
if [ "${SEED_SCRATCH:-0}" = 1 ]; then RP=$SCR; else git -C /repo worktree remove --force $SCR; git -C /repo apply $OUT/patch.diff || { echo "cannot apply to /repo"; exit 2; }; RP=/repo; fi
for p in $PROP $EXTRA; do
  (cd ${VERIF_DIR:-/verif} && VERIF_REPO=$RP timeout 3000 ./check $p > /tmp/seedv/$NAME.check_$p.log 2>&1); RES[$p]=$?
  echo "check $p -> exit ${RES[$p]}: $(grep -c '^VIOLATION' /tmp/seedv/$NAME.check_$p.log) violation line(s); $(tail -1 /tmp/seedv/$NAME.check_$p.log)"
done
if [ "${SEED_SCRATCH:-0}" = 1 ]; then git -C /repo worktree remove --force $SCR; else git -C /repo checkout -- . ; git -C /repo status --short | head -3; fi
D=/verif/seeded/$NAME; mkdir -p $D
cp $OUT/patch.diff $D/; [ -f $OUT/demo.sh ] && cp $OUT/demo.sh $D/; [ -f $OUT/meta.txt ] && cp $OUT/meta.txt $D/needs.txt
python3 - <<PY
import json
res={}
$(for p in $PROP $EXTRA; do echo "res['$p']=${RES[$p]}"; done)
json.dump({"property":"$PROP","name":"$NAME","demo_exit_without_change":"$res_before","unit_tests_exit_with_change":"$tests","demo_exit_with_change":"$res_after",
 "checks_run":{k:("VIOLATION reported (exit 1)" if v==1 else "exit %d"%v) for k,v in res.items()},
 "needs":open("$D/needs.txt").read() if __import__('os').path.exists("$D/needs.txt") else "",
 "ran":"tools/seed_verify.sh: scratch worktree of /repo HEAD; demo.sh before; git apply patch.diff; go build ./... && go test -vet=off -count=1 ./...; demo.sh after; then git -C /repo apply; ./check <prop> (quick); git -C /repo checkout -- ."},
 open("$D/meta.json","w"),indent=1)
PY
