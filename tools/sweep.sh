#!/bin/bash
# usage: sweep.sh <first-seed> <last-seed> [tier] [properties...]   - runs every claimed check (or the
# ones named) for several seeds on the current tree and prints one line per run; used to flush false alarms.
cd "$(dirname "$0")/.."
[ -f coq/Base/Bytes.vo ] || bash ./setup.sh >/dev/null 2>&1
tier=${3:-quick}
first=$1; last=$2
shift; shift; shift
props="$*"
[ -n "$props" ] || props=$(python3 -c "import json;print(' '.join(c['property_id'] for c in json.load(open('MANIFEST.json'))['checks']))")
for seed in $(seq $first $last); do
  for p in $props; do
    out=$(VERIF_SEED=$seed ./check $p --tier $tier 2>&1); rc=$?
    echo "seed=$seed $p rc=$rc $(echo "$out" | tail -1)"
    if [ $rc -ne 0 ]; then echo "$out" | grep -v "^KNOWN" | head -8; fi
  done
done
