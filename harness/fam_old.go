package main

// Family "oldschema" (C20): a committed tree whose directory manifests are rewritten, for an
// arbitrary subset of (sub)directories, in the schema old dud versions wrote (capitalised keys,
// all fields present), under their own digests, parents and stage file re-pointed; then
// checkout, status, push/fetch and a commit on top must behave as on the current-format cache.

import (
	"encoding/json"
	"fmt"
	"os"
	"path/filepath"
	"strings"

	"github.com/kevin-hanselman/dud/src/checksum"
)

func init() { families["oldschema"] = runOldSchema }

type oldArt struct {
	Checksum         string
	Path             string
	IsDir            bool
	DisableRecursion bool
	SkipCache        bool
}
type oldMan struct {
	Path     string
	Contents map[string]*oldArt
}
type newArt struct {
	Checksum         string `json:"checksum,omitempty"`
	Path             string `json:"path,omitempty"`
	IsDir            bool   `json:"is-dir,omitempty"`
	DisableRecursion bool   `json:"disable-recursion,omitempty"`
	SkipCache        bool   `json:"skip-cache,omitempty"`
}
type newMan struct {
	Path     string             `json:"path"`
	Contents map[string]*newArt `json:"contents"`
}

func putObject(cacheDir string, data []byte) string {
	d, err := checksum.Checksum(strings.NewReader(string(data)))
	must(err)
	p := cachePathOf(cacheDir, d)
	must(os.MkdirAll(filepath.Dir(p), 0o755))
	if _, err := os.Lstat(p); err != nil {
		must(os.WriteFile(p, data, 0o444))
		must(os.Chmod(p, 0o444))
	}
	return d
}

// rewrite returns the digest of the (possibly re-encoded) manifest for digest d; old[d'] says
// which directories (by relative path) are written in the old schema.
func rewriteManifest(cacheDir, d, rel string, chooseOld func(rel string) bool, count *int) string {
	b, err := os.ReadFile(cachePathOf(cacheDir, d))
	must(err)
	var m newMan
	must(json.Unmarshal(b, &m))
	for name, a := range m.Contents {
		if a.IsDir {
			a.Checksum = rewriteManifest(cacheDir, a.Checksum, filepath.Join(rel, name), chooseOld, count)
		}
	}
	var out []byte
	if chooseOld(rel) {
		*count++
		om := oldMan{Path: m.Path, Contents: map[string]*oldArt{}}
		for name, a := range m.Contents {
			om.Contents[name] = &oldArt{a.Checksum, a.Path, a.IsDir, a.DisableRecursion, a.SkipCache}
		}
		if len(m.Contents)%2 == 1 {
			// the same old-schema manifest with its keys in sorted order, as a tool that
			// re-serialised the cache (jq -S, a Python script) would leave it
			gm := map[string]interface{}{"Path": om.Path}
			gc := map[string]interface{}{}
			for name, a := range om.Contents {
				gc[name] = map[string]interface{}{"Checksum": a.Checksum, "Path": a.Path, "IsDir": a.IsDir,
					"DisableRecursion": a.DisableRecursion, "SkipCache": a.SkipCache}
			}
			gm["Contents"] = gc
			out, err = json.Marshal(gm)
		} else {
			out, err = json.Marshal(om)
		}
		must(err)
		out = append(out, '\n')
	} else {
		out, err = json.Marshal(m)
		must(err)
		out = append(out, '\n')
	}
	nd := putObject(cacheDir, out)
	rewrittenNew[nd] = true
	if nd != d {
		superseded = append(superseded, d)
	}
	return nd
}

// manifests replaced by a rewritten version: an old cache does not hold their current-format twins
var superseded []string
var rewrittenNew = map[string]bool{}

func runOldSchema(o *opts) {
	r := newRng(o.seed)
	s := newSummary("oldschema", o.seed, o.tier)
	n := 16
	if o.tier == "thorough" {
		n = 150
	}
	if o.n > 0 {
		n = o.n
	}
	var all []*Transition
	distinct := map[string]bool{}
	for i := 0; i < n; i++ {
		rr := r.fork()
		c := setupCommitted(o, rr, s, "oldschema", i, []string{"dir"}, treeOpts{maxDepth: 3, maxFan: 4, hostile: rr.chance(1, 3), allowEmptyDir: true, keyNames: true})
		if !c.ts[0].OK {
			c.cleanup()
			continue
		}
		p := c.p
		ref := c.ts[0].Pre.Root.clone()
		// rewrite a subset of the directory manifests in the old schema
		rec := loadStage(filepath.Join(p.Root, "s.yaml"))
		nOld := 0
		subset := rr.intn(4) // 0: all, 1: root only, 2: random, 3: all but root
		choose := func(rel string) bool {
			switch subset {
			case 0:
				return true
			case 1:
				return rel == ""
			case 3:
				return rel != ""
			}
			return rr.chance(1, 2)
		}
		superseded, rewrittenNew = nil, map[string]bool{}
		newTop := rewriteManifest(p.CacheDir, rec.Out[0].Cs, "", choose, &nOld)
		for _, d := range superseded {
			if !rewrittenNew[d] {
				os.Remove(cachePathOf(p.CacheDir, d))
			}
		}
		rec.Out[0].Cs = newTop
		p.writeStage("s.yaml", rec)
		s.count(fmt.Sprintf("old-manifests:%d", nOld))
		s.count(fmt.Sprintf("subset:%d", subset))
		tagIt := func(t *Transition, step string) {
			t.Info["scenario"] = i
			t.Info["step"] = step
			t.Info["old_manifests"] = nOld
			all = append(all, t)
		}
		if nOld > 0 {
			distinct[fmt.Sprintf("%d|%s", subset, ref.coq())] = true
		}
		// status on the workspace as the commit left it: everything up-to-date
		t, _ := p.do(Cmd{Kind: "status"}, nil, want(11, 15), nil, nil)
		tagIt(t, "status on old-schema cache")
		// checkout into the emptied workspace
		rmrf(filepath.Join(p.Root, c.artPath))
		cp := rr.chance(1, 2)
		t, _ = p.do(Cmd{Kind: "checkout", Copy: cp}, nil, want(11, 3), ref, nil)
		tagIt(t, "checkout from old-schema cache")
		t, _ = p.do(Cmd{Kind: "status"}, nil, want(11, 15), nil, nil)
		tagIt(t, "status after checkout")
		// a commit on top records the current workspace faithfully
		abs := filepath.Join(p.Root, c.artPath)
		ek := applyEdit(rr, p, c, abs)
		if ek == "root-to-file" || ek == "delete-root" || ek == "subdir-to-outside-link" {
			// the artifact itself is gone or no directory any more: commit refuses
			t, _ = p.do(Cmd{Kind: "commit", Copy: rr.chance(1, 2)}, nil, want(5), nil, nil)
			tagIt(t, "commit on top after "+ek)
		} else if ek != "" && ek != "dangle" && ek != "retarget" && ek != "drop-object" {
			t, _ = p.do(Cmd{Kind: "commit", Copy: rr.chance(1, 2)}, nil, want(11, 7), nil, nil)
			tagIt(t, "commit on top after "+ek)
			t, _ = p.do(Cmd{Kind: "status"}, nil, want(11, 15), nil, nil)
			tagIt(t, "status after commit on top")
		}
		c.cleanup()
	}
	s.Cases = len(all)
	s.Nontrivial = len(distinct)
	s.Rule = "committed directory trees (depth <= 3) with the manifests of a subset of (sub)directories (all / root only / random / all but root) rewritten in the old schema under their own digests, parents and stage file re-pointed -> status, checkout (both strategies), status, edit + commit on top, status; non-trivial = at least one manifest is old-schema; distinct by (subset, tree)"
	if len(all) > 0 {
		s.Samples = append(s.Samples, all[0].Info, all[len(all)/2].Info)
	}
	emitTransitions(o, "oldschema", all, s, 6)
	s.write(o.out)
	rmrf(filepath.Join(o.out, "w"))
}
