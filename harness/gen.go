package main

import (
	"fmt"
	"os"
	"os/exec"
	"path/filepath"
	"strconv"
	"strings"
)

// ---------- generators: names, contents, trees ----------

var nameClasses = []struct {
	class string
	gen   func(r *rng) string
}{
	{"ascii", func(r *rng) string { return []string{"a", "b", "data.txt", "x1", "README", "out.bin", "zz"}[r.intn(7)] }},
	{"ascii", func(r *rng) string { return fmt.Sprintf("f%d", r.intn(40)) }},
	{"space", func(r *rng) string { return []string{"a b", " lead", "trail ", "two  sp"}[r.intn(4)] }},
	{"quotes", func(r *rng) string { return []string{`q"uote`, `it's`, `back\slash`, "`tick`"}[r.intn(4)] }},
	{"html", func(r *rng) string { return []string{"a<b", "x>y", "r&d", "<>&"}[r.intn(4)] }},
	{"control", func(r *rng) string { return "c" + string(rune(1+r.intn(31))) + "x" }},
	{"del", func(r *rng) string { return "d\x7fel" }},
	{"nel", func(r *rng) string { return "nel\u0085name" }},
	{"lsps", func(r *rng) string { return []string{"ls x", "ps y"}[r.intn(2)] }},
	{"c1", func(r *rng) string { return "c1\u009bz" }},
	{"ufffd", func(r *rng) string { return "r�r" }},
	{"astral", func(r *rng) string { return "e\U0001F600m" }},
	{"latin", func(r *rng) string { return []string{"café", "über", "日本"}[r.intn(3)] }},
	{"yamlish", func(r *rng) string { return []string{"null", "true", "~", "1e3", "- x", "k: v", "#c", "<<"}[r.intn(8)] }},
	{"dots", func(r *rng) string { return []string{"..foo", "a..b", ".hidden", "..."}[r.intn(4)] }},
}

func genName(r *rng, s *summary, hostile bool) string {
	if !hostile || r.chance(3, 5) {
		c := nameClasses[r.intn(2)]
		if s != nil {
			s.count("name:" + c.class)
		}
		return c.gen(r)
	}
	c := nameClasses[2+r.intn(len(nameClasses)-2)]
	if s != nil {
		s.count("name:" + c.class)
	}
	return c.gen(r)
}

func invalidUtf8Name(r *rng) string {
	return []string{"bad\xff\xfe", "\xc3(", "trunc\xe2\x82", "\x80x"}[r.intn(4)]
}

var sizes = []int{0, 0, 1, 2, 5, 17, 40, 63, 64, 65, 100}

func genContent(r *rng, pool *[][]byte) []byte {
	if len(*pool) > 0 && r.chance(1, 4) {
		return (*pool)[r.intn(len(*pool))] // duplicate contents
	}
	b := r.bytes(sizes[r.intn(len(sizes))])
	if r.chance(1, 3) {
		// texty content
		b = []byte(fmt.Sprintf("v%d\n", r.intn(1000)))
	}
	if r.chance(1, 6) {
		b = append(b, 0, 0, 0) // NUL padding (what a stale comparison buffer holds)
	}
	*pool = append(*pool, b)
	return b
}

type treeOpts struct {
	maxDepth, maxFan int
	hostile          bool
	allowEmptyDir    bool
	keyNames         bool // entries named like the JSON keys of the manifest schemas
	siblings         bool // tracked files named like another entry plus a temp-file suffix
	dupPair          bool // two top-level files with identical contents (one cache object for both)
	cacheNames       bool // sub-directories named like the cache directories the harness configures
	ensureSubdir     bool // the top level has at least one sub-directory
}

func genTree(r *rng, depth int, to treeOpts, pool *[][]byte, s *summary) *Node {
	n := &Node{Kind: "d"}
	fan := r.intn(to.maxFan + 1)
	if depth == 0 && fan == 0 && r.chance(2, 3) {
		fan = 1 + r.intn(to.maxFan)
	}
	used := map[string]bool{}
	for i := 0; i < fan; i++ {
		name := genName(r, s, to.hostile)
		if used[name] {
			continue
		}
		used[name] = true
		if depth < to.maxDepth && r.chance(1, 3) {
			sub := genTree(r, depth+1, to, pool, s)
			if len(sub.Ents) == 0 && !to.allowEmptyDir {
				continue
			}
			n.Ents = append(n.Ents, Ent{name, sub})
		} else {
			n.Ents = append(n.Ents, Ent{name, nFile(genContent(r, pool))})
		}
	}
	if to.ensureSubdir && depth == 0 {
		has := false
		for _, e := range n.Ents {
			if e.N.Kind == "d" {
				has = true
			}
		}
		if !has {
			n.set("sub_always", nDir(Ent{"inner.txt", nFile(genContent(r, pool))}))
		}
	}
	if to.dupPair && depth == 0 {
		b := append([]byte("same bytes twice "), r.bytes(8)...)
		n.set("aa_dup", nFile(b))
		n.set("zz_dup", nFile(b))
	}
	if to.siblings {
		for _, e := range append([]Ent{}, n.Ents...) {
			if e.N.Kind == "f" && r.chance(1, 5) {
				sib := e.Name + []string{".dud-link", ".part", ".tmp", "~", ".dud-link-1"}[r.intn(5)]
				if n.get(sib) == nil {
					n.Ents = append(n.Ents, Ent{sib, nFile(genContent(r, pool))})
					if s != nil {
						s.count("name:entry+temp-suffix")
					}
				}
			}
		}
	}
	if to.cacheNames && depth <= 1 && r.chance(1, 4) {
		// tracked sub-directories that merely have the NAME of a cache directory (.dud/cache, mycache,
		// cache:abs, cache_x): data like any other
		for _, cn := range []string{"cache", "mycache", "cache:abs", "cache_x"} {
			if n.get(cn) == nil {
				n.set(cn, nDir(Ent{"kept.txt", nFile(genContent(r, pool))}))
			}
		}
		if s != nil {
			s.count("name:like-a-cache-directory")
		}
	}
	if to.keyNames && depth <= 1 && r.chance(1, 2) {
		// names a decoder could mistake for its own keys, as directories and as files
		n.set("path", nDir(Ent{"contents", nFile(genContent(r, pool))}, Ent{"is-dir", nDir(Ent{"checksum", nFile(genContent(r, pool))})}))
		n.set([]string{"Path", "IsDir", "checksum", "skip-cache"}[r.intn(4)], nFile(genContent(r, pool)))
		if s != nil {
			s.count("name:json-key")
		}
	}
	n.sortEnts()
	return n
}

// ---------- small helpers for scenario directories ----------

func copyTree(src, dst string) {
	out, err := exec.Command("cp", "-a", src, dst).CombinedOutput()
	if err != nil {
		must(fmt.Errorf("cp -a %s %s: %v %s", src, dst, err, out))
	}
}

func rmrf(p string) {
	// cache objects are 0444 inside 0755 directories; RemoveAll copes
	os.RemoveAll(p)
}

func scenarioDir(o *opts, fam string, i int) string {
	d := filepath.Join(o.out, "w", fam+"_"+strconv.Itoa(i))
	must(os.MkdirAll(d, 0o755))
	return d
}

func relDepth(p string) int { return len(strings.Split(filepath.Clean(p), "/")) }

var specFilter map[int]bool

func want(specs ...int) []int {
	var out []int
	for _, s := range specs {
		if specFilter == nil || specFilter[s] {
			out = append(out, s)
		}
	}
	return out
}
