package main

// Family "tree": commit a generated tree as a stage output, check out again into one of three
// target workspaces (same project with the artifact removed, the project after being moved, a
// clone holding only stage files + cache), with status and repeated commands in between.
// Serves C01 (3, 11, 14, 5), C02 (1), C05 (15: all up-to-date after commit/checkout), C15 (2), C16 (7).

import (
	"fmt"
	"os"
	"path/filepath"
	"strings"
)

func init() { families["tree"] = runTree }

type treeScenario struct {
	kind      string // file dir norec
	cacheLoc  string
	commitCp  bool
	coCp      bool
	cwd       string
	target    string // same moved clone
	artPath   string
	invalid   bool
	twoStages bool
	foreign   bool
}

func runTree(o *opts) {
	fileModes = true
	r := newRng(o.seed)
	s := newSummary("tree", o.seed, o.tier)
	n := 36
	if o.tier == "thorough" {
		n = 400
	}
	if o.n > 0 {
		n = o.n
	}
	var ts []*Transition
	distinct := map[string]bool{}
	for i := 0; i < n; i++ {
		rr := r.fork()
		sc := treeScenario{
			kind:     []string{"file", "dir", "dir", "norec"}[rr.intn(4)],
			cacheLoc: []string{"in", "in", "rel", "abs", "xdev"}[rr.intn(5)],
			commitCp: rr.chance(1, 2), coCp: rr.chance(1, 2),
			cwd:     []string{"", "", "sub/deep"}[rr.intn(3)],
			target:  []string{"same", "moved", "clone"}[rr.intn(3)],
			artPath: []string{"out", "data/out", "a/b/c"}[rr.intn(3)],
			invalid: rr.chance(1, 12) || i%9 == 4, twoStages: rr.chance(1, 3),
			foreign: rr.chance(1, 10),
		}
		if o.shm == "" && sc.cacheLoc == "xdev" {
			sc.cacheLoc = "abs"
		}
		ts = append(ts, oneTree(o, rr, s, i, sc, distinct)...)
	}
	// a stage file that is itself a tracked output of another stage (a generated pipeline step): after a
	// link commit it is a link into the cache, and writing it back must not go THROUGH that link
	for k := 0; k < 2; k++ {
		base := scenarioDir(o, "tree", 9000+k)
		p := newProject(o, base, []string{"in", "abs"}[k])
		p.init()
		must(os.WriteFile(filepath.Join(p.Root, "model.bin"), r.bytes(50), 0o644))
		p.writeStage("train.yaml", &StageRec{Out: []Art{{Path: "model.bin"}}})
		p.writeStage("gen.yaml", &StageRec{Out: []Art{{Path: "train.yaml"}}})
		if res := p.dud("", "stage", "add", "gen.yaml", "train.yaml"); res.Exit != 0 {
			must(fmt.Errorf("stage-file-as-artifact setup: %s", res.Stderr))
		}
		outside := func(t *Transition, step string) {
			t.Obs = append(t.Obs, 9)
			t.Info["scenario"] = 9000 + k
			t.Info["step"] = step
			t.Info["stage_file_is_an_artifact"] = true
			ts = append(ts, t)
		}
		t, _ := p.do(Cmd{Kind: "commit"}, nil, want(11, 1, 13), nil, nil)
		outside(t, "commit (the stage file train.yaml becomes a link into the cache)")
		os.Remove(filepath.Join(p.Root, "model.bin"))
		must(os.WriteFile(filepath.Join(p.Root, "model.bin"), r.bytes(60), 0o644))
		t, _ = p.do(Cmd{Kind: "commit", Targets: []string{"train.yaml"}}, nil, want(11, 1, 13), nil, nil)
		outside(t, "commit of the stage whose file is a link into the cache")
		t, _ = p.do(Cmd{Kind: "status"}, nil, want(1, 13), nil, nil)
		outside(t, "status afterwards")
		s.count("stage-file-as-artifact")
		rmrf(base)
	}
	s.Cases = len(ts)
	s.Nontrivial = len(distinct)
	s.Rule = "a stage file tracked as another stage's output (statements only: outside the model); one case = one dud command between two observed project states; scenarios = generated tree x artifact kind x strategies x cache placement x invocation dir x target workspace; non-trivial = the tree has >= 2 leaves or a nested directory; distinct by (tree, configuration)"
	for _, i := range []int{0, len(ts) / 2} {
		if i < len(ts) {
			s.Samples = append(s.Samples, ts[i].Info)
		}
	}
	emitTransitions(o, "tree", ts, s, 6)
	s.write(o.out)
	rmrf(filepath.Join(o.out, "w"))
}

// lastBufPair: the scenario that got the pair of 64 KiB files (the first directory scenario of a run:
// hashing them in Coq costs minutes and gigabytes, so one per run, in either tier)
var lastBufPair = -100

func oneTree(o *opts, r *rng, s *summary, i int, sc treeScenario, distinct map[string]bool) []*Transition {
	base := scenarioDir(o, "tree", i)
	defer rmrf(base)
	p := newProject(o, base, sc.cacheLoc)
	defer func() {
		if sc.cacheLoc == "xdev" {
			rmrf(filepath.Dir(p.CacheDir))
		}
	}()
	p.init()
	must(os.MkdirAll(filepath.Join(p.Root, "sub", "deep"), 0o755))
	var pool [][]byte
	var art *Node
	to := treeOpts{maxDepth: 2, maxFan: 4, hostile: true, allowEmptyDir: true, siblings: true, cacheNames: true}
	if o.tier == "thorough" && r.chance(1, 4) {
		to = treeOpts{maxDepth: 4, maxFan: 7, hostile: true, allowEmptyDir: true, siblings: true, cacheNames: true}
	}
	switch sc.kind {
	case "file":
		art = nFile(genContent(r, &pool))
		if i%17 == 3 { // one content around the 64 KiB hashing buffer per run
			art = nFile(r.bytes([]int{65536, 65537, 65535}[(i/17)%3]))
			r.intn(3)
			s.count("size:64KiB")
		}
	default:
		art = genTree(r, 0, to, &pool, s)
		if i >= 3 && lastBufPair < 0 {
			lastBufPair = i
			// contents of exactly the hashing buffer's size, two different ones, next to an empty file:
			// three different objects
			art.set("buf_a.bin", nFile(r.bytes(65536)))
			art.set("buf_b.bin", nFile(r.bytes(65536)))
			art.set("buf_empty.bin", nFile(nil))
			art.sortEnts()
			s.count("size:64KiB")
		}
		if sc.kind == "norec" {
			// several sub-directories next to the files, in whatever order the file system lists them
			for _, n := range []string{"Zsub", "asub", "msub"} {
				art.set(n, nDir(Ent{"inner.txt", nFile(genContent(r, &pool))}))
			}
			art.sortEnts()
		}
		if r.chance(1, 4) {
			// long names that agree on their first 210 bytes (a name cut to make room for a suffix
			// would collide with its sibling)
			long := strings.Repeat("L", 210)
			art.set(long+"_first", nFile(genContent(r, &pool)))
			art.set(long+"_second", nFile(genContent(r, &pool)))
			art.set(strings.Repeat("N", 250+r.intn(6)), nFile(genContent(r, &pool))) // up to NAME_MAX
			art.sortEnts()
			s.count("name:long-shared-prefix")
		}
		if sc.invalid {
			if sc.kind == "norec" || (i%9 != 4 && r.chance(1, 2)) {
				// (sub-directories of a non-recursive artifact are not tracked: only a FILE with such
				// a name makes its commit fail)
				art.set(invalidUtf8Name(r), nFile([]byte("x")))
			} else {
				// a sub-directory with such a name (its files are fine), possibly one level down
				bad := nDir(Ent{"fine.txt", nFile([]byte("fine"))})
				if r.chance(1, 2) {
					art.set(invalidUtf8Name(r), bad)
				} else {
					art.set("holder", nDir(Ent{invalidUtf8Name(r), bad}, Ent{"also.txt", nFile([]byte("y"))}))
				}
			}
		}
		if sc.foreign {
			// a link to a live regular file outside the cache is not a file to version
			ext := filepath.Join(base, "external.bin")
			must(os.WriteFile(ext, []byte("somebody else's data"), 0o644))
			art.set("zz_external", &Node{Kind: "lo", Data: []byte(ext)})
		}
	}
	s.count("kind:" + sc.kind)
	s.count("cache:" + sc.cacheLoc)
	s.count("target:" + sc.target)
	s.count(fmt.Sprintf("commit-copy:%v checkout-copy:%v", sc.commitCp, sc.coCp))
	s.count("cwd:" + sc.cwd)
	s.count(fmt.Sprintf("depth:%d", art.depth()))
	// two names for one inode (hard links) inside a tracked directory: two entries with equal bytes as
	// far as the property goes. (The model has no inodes - after a link commit the second name stays
	// a regular file on the object's inode - so the commit is judged by the statements only: obs 9.)
	hardlinked := sc.kind == "dir" && !sc.invalid && !sc.foreign && (r.chance(1, 4) || i%3 == 0)
	if hardlinked {
		b := append([]byte("one inode, two names "), r.bytes(12)...)
		art.set("hl_first.bin", nFile(b))
		art.set("hl_nest", nDir(Ent{"hl_second.bin", nFile(b)}))
		art.sortEnts()
		s.count("hard-linked-pair")
	}
	abs := filepath.Join(p.Root, sc.artPath)
	must(os.MkdirAll(filepath.Dir(abs), 0o755))
	materialize(abs, art, p.CacheDir)
	if hardlinked {
		must(os.Remove(filepath.Join(abs, "hl_nest", "hl_second.bin")))
		must(os.Link(filepath.Join(abs, "hl_first.bin"), filepath.Join(abs, "hl_nest", "hl_second.bin")))
	}
	rec := &StageRec{Out: []Art{{Path: sc.artPath, IsDir: sc.kind != "file", NoRec: sc.kind == "norec"}}}
	p.writeStage("s.yaml", rec)
	stages := []string{"s.yaml"}
	if sc.twoStages {
		// an independent second stage with a small file output
		must(os.WriteFile(filepath.Join(p.Root, "other.txt"), []byte("other\n"), 0o644))
		p.writeStage("sub/t.yaml", &StageRec{Out: []Art{{Path: "other.txt"}}})
		stages = append(stages, "sub/t.yaml")
		s.count("two-stages")
	}
	var ts []*Transition
	info := func(t *Transition, step string) *Transition {
		t.Info["scenario"] = i
		t.Info["step"] = step
		t.Info["kind"] = sc.kind
		t.Info["cache"] = sc.cacheLoc
		t.Info["target"] = sc.target
		t.Info["tree_leaves"] = art.countLeaves()
		if sc.invalid && sc.kind != "file" {
			t.Info["invalid_utf8_name"] = true
		}
		if sc.foreign && sc.kind != "file" {
			t.Info["link_to_external_regular_file"] = true
		}
		if hardlinked && t.Cmd.Kind == "commit" {
			t.Obs = append(t.Obs, 9)
			t.Info["hard_linked_pair"] = true
		}
		ts = append(ts, t)
		return t
	}
	t, w := p.do(Cmd{Kind: "stageadd", Targets: stages}, nil, want(11), nil, nil)
	info(t, "stage add")
	ref := w.Root.clone()
	// commit
	cspecs := want(11, 1, 7, 14, 13)
	bad := (sc.invalid || sc.foreign) && sc.kind != "file"
	if bad {
		cspecs = want(5, 1, 13)
	}
	t, w = p.do(Cmd{Kind: "commit", Copy: sc.commitCp, Cwd: sc.cwd}, nil, cspecs, ref, w)
	info(t, "commit")

	if !t.OK {
		return ts
	}
	if art.countLeaves() >= 2 || art.depth() >= 2 {
		distinct[fmt.Sprintf("%s|%v", art.coq(), sc)] = true
	}
	// status right after commit: everything up-to-date
	t, w = p.do(Cmd{Kind: "status"}, nil, want(15, 2), nil, w)
	info(t, "status after commit")
	// repeat commit (possibly the other strategy): nothing changes
	again := r.chance(1, 2)
	rspec := 2
	if again != sc.commitCp {
		rspec = 16
	}
	t, w = p.do(Cmd{Kind: "commit", Copy: again, Cwd: sc.cwd}, nil, want(rspec, 1), nil, w)
	info(t, "commit again")
	// target workspace
	switch sc.target {
	case "same":
		rmrf(abs)
	case "moved":
		rmrf(abs)
		newBase := filepath.Join(p.Base, "outer", "moved_proj")
		must(os.Rename(p.Root, newBase))
		if sc.cacheLoc == "in" || sc.cacheLoc == "rel" {
			rel, _ := filepath.Rel(p.Root, p.CacheDir)
			p.CacheDir = filepath.Join(newBase, rel)
		}
		p.Root = newBase
	case "clone":
		clone := filepath.Join(p.Base, "outer", "clone")
		must(os.MkdirAll(filepath.Join(clone, ".dud"), 0o755))
		for _, f := range []string{".dud/config.yaml", ".dud/index", ".dud/rclone.conf"} {
			b, err := os.ReadFile(filepath.Join(p.Root, f))
			must(err)
			must(os.WriteFile(filepath.Join(clone, f), b, 0o644))
		}
		for _, sf := range p.StageFs {
			b, err := os.ReadFile(filepath.Join(p.Root, sf))
			must(err)
			must(os.MkdirAll(filepath.Dir(filepath.Join(clone, sf)), 0o755))
			must(os.WriteFile(filepath.Join(clone, sf), b, 0o644))
		}
		if sc.cacheLoc == "in" || sc.cacheLoc == "rel" {
			rel, _ := filepath.Rel(p.Root, p.CacheDir)
			must(os.MkdirAll(filepath.Dir(filepath.Join(clone, rel)), 0o755))
			copyTree(p.CacheDir, filepath.Join(clone, rel))
			p.CacheDir = filepath.Join(clone, rel)
		}
		p.Root = clone
		must(os.MkdirAll(filepath.Join(p.Root, "sub", "deep"), 0o755))
	}
	t, w = p.do(Cmd{Kind: "checkout", Copy: sc.coCp, Cwd: sc.cwd}, nil, want(11, 3, 1, 8, 9, 13), ref, nil)
	info(t, "checkout into "+sc.target)
	if !t.OK {
		return ts
	}
	t, w = p.do(Cmd{Kind: "status"}, nil, want(15, 2), nil, w)
	info(t, "status after checkout")
	// repeats: checkout again, commit after checkout, checkout after commit
	seq := []Cmd{{Kind: "checkout", Copy: sc.coCp}, {Kind: "commit", Copy: r.chance(1, 2)}, {Kind: "checkout", Copy: r.chance(1, 2)}}
	prev := Cmd{Kind: "checkout", Copy: sc.coCp}
	for k, c := range seq {
		if o.tier == "quick" && k > 0 && r.chance(1, 2) {
			continue
		}
		c.Cwd = sc.cwd
		rspec := 16
		if c.Kind == prev.Kind && c.Copy == prev.Copy {
			rspec = 2
		}
		t, w = p.do(c, nil, want(rspec, 1, 13), nil, w)
		info(t, "repeat "+c.Kind)
		prev = c
	}
	return ts
}
