package main

// Shared machinery for whole-program scenarios: build a project on disk, run the real dud
// binary, snapshot the project (workspace tree, cache, stage files, index, lock) and print the
// observations as Coq terms for Corr/RunSys.v.

import (
	"bytes"
	"context"
	"encoding/json"
	"fmt"
	"os"
	"os/exec"
	"path/filepath"
	"sort"
	"strings"
	"syscall"
	"time"

	"github.com/kevin-hanselman/dud/src/artifact"
	"github.com/kevin-hanselman/dud/src/stage"
)

// ---------- model-side data ----------

type Node struct {
	Kind string // f, lc, lo, d, o
	Data []byte // file bytes / digest / link text
	Ents []Ent
}
type Ent struct {
	Name string
	N    *Node
}

func nFile(b []byte) *Node { return &Node{Kind: "f", Data: b} }
func nDir(es ...Ent) *Node {
	n := &Node{Kind: "d", Ents: es}
	n.sortEnts()
	return n
}
func (n *Node) sortEnts() {
	sort.Slice(n.Ents, func(i, j int) bool { return n.Ents[i].Name < n.Ents[j].Name })
}
func (n *Node) coq() string {
	switch n.Kind {
	case "f":
		return "File (" + cx(n.Data) + ")"
	case "lc":
		return "LinkC (" + cx(n.Data) + ")"
	case "lo":
		return "LinkO (" + cx(n.Data) + ")"
	case "o":
		return "Other"
	}
	parts := make([]string, len(n.Ents))
	for i, e := range n.Ents {
		parts[i] = "(" + cxs(e.Name) + ", " + e.N.coq() + ")"
	}
	return "Dir " + clist(parts)
}
func (n *Node) get(name string) *Node {
	for _, e := range n.Ents {
		if e.Name == name {
			return e.N
		}
	}
	return nil
}
func (n *Node) set(name string, v *Node) {
	for i, e := range n.Ents {
		if e.Name == name {
			if v == nil {
				n.Ents = append(n.Ents[:i], n.Ents[i+1:]...)
			} else {
				n.Ents[i].N = v
			}
			return
		}
	}
	if v != nil {
		n.Ents = append(n.Ents, Ent{name, v})
		n.sortEnts()
	}
}
func (n *Node) clone() *Node {
	c := &Node{Kind: n.Kind, Data: append([]byte{}, n.Data...)}
	for _, e := range n.Ents {
		c.Ents = append(c.Ents, Ent{e.Name, e.N.clone()})
	}
	return c
}
func (n *Node) countLeaves() int {
	if n.Kind != "d" {
		return 1
	}
	k := 0
	for _, e := range n.Ents {
		k += e.N.countLeaves()
	}
	return k
}
func (n *Node) depth() int {
	if n.Kind != "d" {
		return 0
	}
	d := 0
	for _, e := range n.Ents {
		if x := e.N.depth(); x > d {
			d = x
		}
	}
	return d + 1
}

type Art struct {
	Cs    string
	Path  string
	IsDir bool
	NoRec bool
	Skip  bool
}

func (a Art) coq() string {
	return fmt.Sprintf("mkArt (%s) (%s) %s %s %s", cxs(a.Cs), cxs(a.Path), cbool(a.IsDir), cbool(a.NoRec), cbool(a.Skip))
}

type StageRec struct {
	Cs, Cmd, Wd string
	In, Out     []Art
}

func artsCoq(as []Art) string {
	p := make([]string, len(as))
	for i, a := range as {
		p[i] = a.coq()
	}
	return clist(p)
}
func (s *StageRec) coq() string {
	return fmt.Sprintf("mkStage (%s) (%s) (%s) %s %s", cxs(s.Cs), cxs(s.Cmd), cxs(s.Wd), artsCoq(s.In), artsCoq(s.Out))
}

type CObj struct {
	Digest string
	Data   []byte
	Mode   uint32
}
type World struct {
	Root   *Node
	Cache  []CObj
	Stray  []string
	Stages []StageObs
	Index  []string
	Lock   bool
}
type StageObs struct {
	Path string
	Rec  *StageRec
	Raw  []byte
	Ino  uint64 // identity of the file on disk: a rewrite with the same bytes still shows
	Mtim int64
}

func (w *World) coq() string {
	objs := make([]string, len(w.Cache))
	for i, o := range w.Cache {
		objs[i] = fmt.Sprintf("(%s, mkObj (%s) %d)", cxs(o.Digest), cx(o.Data), o.Mode)
	}
	sts := make([]string, len(w.Stages))
	for i, s := range w.Stages {
		r := "None"
		if s.Rec != nil {
			r = "Some (" + s.Rec.coq() + ")"
		}
		sts[i] = "(" + cxs(s.Path) + ", " + r + ")"
	}
	idx := make([]string, len(w.Index))
	for i, l := range w.Index {
		idx[i] = cxs(l)
	}
	return fmt.Sprintf("mkW (%s) %s %s %s %s", w.Root.coq(), clist(objs), clist(sts), clist(idx), cbool(w.Lock))
}

// ---------- project on disk ----------

type Project struct {
	Base       string // scenario directory (sentinel surroundings)
	Root       string // project root
	CacheDir   string // absolute
	CacheCfg   string // what is written into the config ("" = default)
	Xdg        string
	Dud        string
	StageFs    []string // stage file paths relative to Root
	Env        []string
	lastRunlog []byte
	ExtraEnv   []string      // added to every dud invocation (pool sizes, GOMAXPROCS)
	Timeout    time.Duration // watchdog; 0 = 5 minutes
	Hung       bool          // the last invocation was killed by the watchdog
}

func newProject(o *opts, base string, cacheLoc string) *Project {
	p := &Project{Base: base, Root: filepath.Join(base, "outer", "proj"), Xdg: filepath.Join(base, "xdg"), Dud: o.dud}
	must(os.MkdirAll(p.Root, 0o755))
	must(os.MkdirAll(p.Xdg, 0o755))
	switch cacheLoc {
	case "abs":
		p.CacheDir = filepath.Join(base, "cache:abs") // a colon: not a remote, not a drive, just a name
		p.CacheCfg = p.CacheDir
	case "xdev":
		p.CacheDir = filepath.Join(o.shm, filepath.Base(base), "cache_x")
		p.CacheCfg = p.CacheDir
	case "rel":
		p.CacheDir = filepath.Join(p.Root, "mycache")
		p.CacheCfg = "mycache"
	default:
		p.CacheDir = filepath.Join(p.Root, ".dud", "cache")
	}
	p.Env = append(os.Environ(), "XDG_CONFIG_HOME="+p.Xdg, "HOME="+base, "LC_ALL=C.UTF-8")
	return p
}

type runRes struct {
	Exit   int
	Stdout string
	Stderr string
}

func (p *Project) dud(cwdRel string, args ...string) runRes {
	to := p.Timeout
	if to == 0 {
		to = 5 * time.Minute
	}
	ctx, cancel := context.WithTimeout(context.Background(), to)
	defer cancel()
	cmd := exec.CommandContext(ctx, p.Dud, args...)
	cmd.Dir = filepath.Join(p.Root, cwdRel)
	cmd.Env = append(append([]string{}, p.Env...), p.ExtraEnv...)
	var so, se bytes.Buffer
	cmd.Stdout, cmd.Stderr = &so, &se
	err := cmd.Run()
	rc := 0
	p.Hung = ctx.Err() == context.DeadlineExceeded
	if p.Hung {
		return runRes{124, so.String(), se.String() + "\nWATCHDOG: killed after " + to.String()}
	}
	if err != nil {
		if ee, ok := err.(*exec.ExitError); ok {
			rc = ee.ExitCode()
			if rc < 0 {
				rc = 128
			}
		} else {
			rc = 127
		}
	}
	return runRes{rc, so.String(), se.String()}
}

func (p *Project) init() {
	r := p.dud("", "init")
	if r.Exit != 0 {
		must(fmt.Errorf("dud init failed: %s %s", r.Stdout, r.Stderr))
	}
	if p.CacheCfg != "" {
		cfg := filepath.Join(p.Root, ".dud", "config.yaml")
		f, err := os.OpenFile(cfg, os.O_APPEND|os.O_WRONLY, 0o644)
		must(err)
		fmt.Fprintf(f, "cache: %s\n", p.CacheCfg)
		f.Close()
	}
	must(os.MkdirAll(p.CacheDir, 0o755))
}

func cachePathOf(cacheDir, digest string) string {
	if len(digest) < 3 {
		return filepath.Join(cacheDir, "__short__"+digest)
	}
	return filepath.Join(cacheDir, digest[:2], digest[2:])
}

// materialize writes a model node at path.
// fileModes: regular files get varied permission bits (families about the cache's own modes).
var fileModes bool

func materialize(path string, n *Node, cacheDir string) {
	switch n.Kind {
	case "f":
		must(os.WriteFile(path, n.Data, 0o644))
		if fileModes {
			// the user's permission bits vary (chosen by content, so that runs are reproducible)
			k := len(n.Data)
			if k > 0 {
				k += int(n.Data[0])
			}
			must(os.Chmod(path, []os.FileMode{0o644, 0o600, 0o444, 0o440, 0o400, 0o555, 0o755, 0o664}[k%8]))
		}
	case "lc":
		target := cachePathOf(cacheDir, string(n.Data))
		rel, err := filepath.Rel(filepath.Dir(path), target)
		must(err)
		must(os.Symlink(rel, path))
	case "lo":
		must(os.Symlink(string(n.Data), path))
	case "o":
		must(syscall.Mkfifo(path, 0o644))
	case "d":
		must(os.MkdirAll(path, 0o755))
		for _, e := range n.Ents {
			materialize(filepath.Join(path, e.Name), e.N, cacheDir)
		}
	}
}

// snapshot canonicalises a real directory into a model node. skip: relative paths (from root)
// that are not part of the workspace tree (".dud", stage files, a relative cache).
func snapshot(root, rel string, cacheDir string, skip map[string]bool) *Node {
	full := filepath.Join(root, rel)
	fi, err := os.Lstat(full)
	must(err)
	mode := fi.Mode()
	switch {
	case mode.IsRegular():
		b, err := os.ReadFile(full)
		must(err)
		return nFile(b)
	case mode&os.ModeSymlink != 0:
		t, err := os.Readlink(full)
		must(err)
		res := t
		if !filepath.IsAbs(t) {
			res = filepath.Join(filepath.Dir(full), t)
		}
		res = filepath.Clean(res)
		if strings.HasPrefix(res, cacheDir+"/") {
			r := strings.TrimPrefix(res, cacheDir+"/")
			parts := strings.Split(r, "/")
			if len(parts) == 2 && len(parts[0]) == 2 {
				return &Node{Kind: "lc", Data: []byte(parts[0] + parts[1])}
			}
		}
		return &Node{Kind: "lo", Data: []byte(t)}
	case mode.IsDir():
		ents, err := os.ReadDir(full)
		must(err)
		n := &Node{Kind: "d"}
		for _, e := range ents {
			r := filepath.Join(rel, e.Name())
			if skip[r] {
				continue
			}
			n.Ents = append(n.Ents, Ent{e.Name(), snapshot(root, r, cacheDir, skip)})
		}
		n.sortEnts()
		return n
	}
	return &Node{Kind: "o"}
}

func snapCache(cacheDir string) (objs []CObj, stray []string) {
	ents, err := os.ReadDir(cacheDir)
	if err != nil {
		return nil, nil
	}
	for _, e := range ents {
		p := filepath.Join(cacheDir, e.Name())
		if e.IsDir() && len(e.Name()) == 2 {
			subs, _ := os.ReadDir(p)
			for _, s := range subs {
				sp := filepath.Join(p, s.Name())
				fi, err := os.Lstat(sp)
				must(err)
				if fi.Mode().IsRegular() {
					b, err := os.ReadFile(sp)
					must(err)
					objs = append(objs, CObj{e.Name() + s.Name(), b, uint32(fi.Mode().Perm())})
				} else if len(s.Name()) == 62 {
					// named like an object but not a regular file (a link, a directory, a pipe): an
					// object that cannot have the bytes its name promises
					objs = append(objs, CObj{e.Name() + s.Name(), nil, 0})
				} else {
					stray = append(stray, e.Name()+"/"+s.Name())
				}
			}
		} else {
			stray = append(stray, e.Name())
		}
	}
	sort.Slice(objs, func(i, j int) bool { return objs[i].Digest < objs[j].Digest })
	sort.Strings(stray)
	return
}

func artFrom(a *artifact.Artifact) Art {
	if a == nil {
		return Art{}
	}
	return Art{a.Checksum, a.Path, a.IsDir, a.DisableRecursion, a.SkipCache}
}
func artsFrom(m map[string]*artifact.Artifact) []Art {
	var out []Art
	for _, k := range sortedKeys(m) {
		out = append(out, artFrom(m[k]))
	}
	return out
}

// loadStage parses a stage file with the real stage.FromFile.
func loadStage(abs string) *StageRec {
	stg, err := stage.FromFile(abs)
	if err != nil {
		return nil
	}
	return &StageRec{stg.Checksum, stg.Command, stg.WorkingDir, artsFrom(stg.Inputs), artsFrom(stg.Outputs)}
}

func (p *Project) observe() *World {
	skip := map[string]bool{".dud": true, ".runlog": true}
	for _, s := range p.StageFs {
		skip[filepath.Clean(s)] = true // the index may name a stage file as sub/../s.yaml
	}
	if rel, err := filepath.Rel(p.Root, p.CacheDir); err == nil && !strings.HasPrefix(rel, "..") {
		skip[rel] = true
	}
	w := &World{}
	w.Root = snapshot(p.Root, "", p.CacheDir, skip)
	w.Cache, w.Stray = snapCache(p.CacheDir)
	sfs := append([]string{}, p.StageFs...)
	sort.Strings(sfs)
	for _, s := range sfs {
		abs := filepath.Join(p.Root, s)
		raw, _ := os.ReadFile(abs)
		so := StageObs{Path: s, Rec: loadStage(abs), Raw: raw}
		if fi, err := os.Lstat(abs); err == nil {
			if st, ok := fi.Sys().(*syscall.Stat_t); ok {
				so.Ino = st.Ino
			}
			so.Mtim = fi.ModTime().UnixNano()
		}
		w.Stages = append(w.Stages, so)
	}
	if b, err := os.ReadFile(filepath.Join(p.Root, ".dud", "index")); err == nil {
		for _, l := range strings.Split(string(b), "\n") {
			l = strings.TrimSpace(l)
			if l != "" {
				w.Index = append(w.Index, l)
			}
		}
	}
	if _, err := os.Lstat(filepath.Join(p.Root, ".dud", "lock")); err == nil {
		w.Lock = true
	}
	return w
}

// writeStage writes a stage file through dud's own serializer.
func (p *Project) writeStage(rel string, s *StageRec) {
	abs := filepath.Join(p.Root, rel)
	must(os.MkdirAll(filepath.Dir(abs), 0o755))
	must(os.WriteFile(abs, []byte(stageYAML(s)), 0o644))
	found := false
	for _, x := range p.StageFs {
		if x == rel {
			found = true
		}
	}
	if !found {
		p.StageFs = append(p.StageFs, rel)
	}
}

// yamlStr: a YAML double-quoted scalar; everything outside printable ASCII is escaped (a raw NEL or
// LS inside quotes is a line break to YAML, which is not what the user means).
func yamlStr(s string) string {
	var sb strings.Builder
	sb.WriteByte('"')
	for _, r := range s {
		switch {
		case r == '"' || r == '\\':
			sb.WriteByte('\\')
			sb.WriteRune(r)
		case r < 0x20 || r == 0x7f || (r >= 0x80 && r <= 0xffff):
			fmt.Fprintf(&sb, "\\u%04x", r)
		case r > 0xffff:
			fmt.Fprintf(&sb, "\\U%08x", r)
		default:
			sb.WriteRune(r)
		}
	}
	sb.WriteByte('"')
	return sb.String()
}

// stageYAML renders a stage file by hand, as a user would write it, NOT through the code under test
// (a serialiser that drops a flag must not silently turn every scenario into a weaker one).
func stageYAML(s *StageRec) string {
	var sb strings.Builder
	if s.Cs != "" {
		fmt.Fprintf(&sb, "checksum: %s\n", yamlStr(s.Cs))
	}
	if s.Cmd != "" {
		fmt.Fprintf(&sb, "command: %s\n", yamlStr(s.Cmd))
	}
	if s.Wd != "" {
		fmt.Fprintf(&sb, "working-dir: %s\n", yamlStr(s.Wd))
	}
	arts := func(title string, l []Art, withSkip bool) {
		if len(l) == 0 {
			return
		}
		fmt.Fprintf(&sb, "%s:\n", title)
		for _, a := range l {
			var attrs []string
			if a.Cs != "" {
				attrs = append(attrs, "    checksum: "+yamlStr(a.Cs))
			}
			if a.IsDir {
				attrs = append(attrs, "    is-dir: true")
			}
			if a.NoRec {
				attrs = append(attrs, "    disable-recursion: true")
			}
			if withSkip && a.Skip {
				attrs = append(attrs, "    skip-cache: true")
			}
			if len(attrs) == 0 {
				// both documented spellings of "no attributes": `path: {}` and the bare `path:`
				if (len(a.Path)+len(l))%2 == 0 {
					fmt.Fprintf(&sb, "  %s: {}\n", yamlStr(a.Path))
				} else {
					fmt.Fprintf(&sb, "  %s:\n", yamlStr(a.Path))
				}
			} else {
				fmt.Fprintf(&sb, "  %s:\n%s\n", yamlStr(a.Path), strings.Join(attrs, "\n"))
			}
		}
	}
	arts("inputs", s.In, false)
	arts("outputs", s.Out, true)
	return sb.String()
}

// rawMeta lists what exists directly under .dud (the lock aside) and whether the cache directory exists.
func (p *Project) rawMeta() string {
	var names []string
	if ents, err := os.ReadDir(filepath.Join(p.Root, ".dud")); err == nil {
		for _, e := range ents {
			if e.Name() != "lock" {
				names = append(names, e.Name())
			}
		}
	}
	sort.Strings(names)
	_, err := os.Lstat(p.CacheDir)
	return fmt.Sprint(names, err == nil)
}

// ---------- commands and transitions ----------

type Cmd struct {
	Kind    string // commit checkout status run stageadd stagerm
	Targets []string
	Copy    bool
	Single  bool
	Cwd     string
}

func (c Cmd) coq() string {
	ts := make([]string, len(c.Targets))
	for i, t := range c.Targets {
		ts[i] = cxs(t)
	}
	switch c.Kind {
	case "commit":
		return fmt.Sprintf("CCommit %s %s", clist(ts), cbool(c.Copy))
	case "checkout":
		return fmt.Sprintf("CCheckout %s %s %s", clist(ts), cbool(c.Copy), cbool(c.Single))
	case "status":
		return fmt.Sprintf("CStatus %s", clist(ts))
	case "run":
		return fmt.Sprintf("CRun %s %s", clist(ts), cbool(c.Single))
	case "stageadd":
		return fmt.Sprintf("CStageAdd %s", clist(ts))
	case "stagerm":
		return fmt.Sprintf("CStageRm %s", clist(ts))
	case "graph":
		return fmt.Sprintf("CGraph %s", clist(ts))
	case "push":
		return fmt.Sprintf("CPush %s %s", clist(ts), cbool(c.Single))
	case "fetch":
		return fmt.Sprintf("CFetch %s %s", clist(ts), cbool(c.Single))
	}
	panic("bad cmd " + c.Kind)
}

func (c Cmd) argv() []string {
	var a []string
	switch c.Kind {
	case "commit":
		a = []string{"commit"}
		if c.Copy {
			a = append(a, "--copy")
		}
	case "checkout":
		a = []string{"checkout"}
		if c.Copy {
			a = append(a, "--copy")
		}
		if c.Single {
			a = append(a, "--single-stage")
		}
	case "status":
		a = []string{"status", "--debug"}
	case "run":
		a = []string{"run"}
		if c.Single {
			a = append(a, "--single-stage")
		}
	case "stageadd":
		a = []string{"stage", "add"}
	case "stagerm":
		a = []string{"stage", "remove"}
	case "graph":
		a = []string{"graph"}
	case "push", "fetch":
		a = []string{c.Kind}
		if c.Single {
			a = append(a, "--single-stage")
		}
	}
	// targets are project-root relative in the model; on the command line they are given
	// relative to the invocation directory
	for _, t := range c.Targets {
		if c.Cwd == "" {
			a = append(a, t)
		} else {
			rel, err := filepath.Rel(c.Cwd, t)
			must(err)
			a = append(a, rel)
		}
	}
	return a
}

type CmdSem struct {
	Stage string
	Srcs  []string
	Dst   string
	Tag   string
}

func (k CmdSem) coq() string {
	s := make([]string, len(k.Srcs))
	for i, x := range k.Srcs {
		s[i] = cxs(x)
	}
	return fmt.Sprintf("(%s, mkCmd %s (%s) (%s))", cxs(k.Stage), clist(s), cxs(k.Dst), cxs(k.Tag))
}
func (k CmdSem) shell() string {
	q := func(s string) string { return "'" + strings.ReplaceAll(s, "'", `'\''`) + "'" }
	srcs := make([]string, len(k.Srcs))
	for i, s := range k.Srcs {
		srcs[i] = q(s)
	}
	return fmt.Sprintf("rm -f %s && mkdir -p %s && cat %s > %s && echo %s >> .runlog", q(k.Dst), q(filepath.Dir(k.Dst)), strings.Join(srcs, " "), q(k.Dst), q(k.Tag))
}

// parseHumanStatus extracts (artifact path, rendered status) from `dud status` text output.
// Lines look like "  <path>  <text>" below a "<stage>  stage definition ..." line; only paths
// without blanks are recognised (the scenarios that use this have such paths).
func parseHumanStatus(out string) [][2]string {
	var res [][2]string
	for _, l := range strings.Split(out, "\n") {
		if !strings.HasPrefix(l, "  ") {
			continue
		}
		f := strings.Fields(l)
		if len(f) < 2 {
			continue
		}
		rest := strings.TrimSpace(strings.TrimPrefix(strings.TrimSpace(l), f[0]))
		res = append(res, [2]string{f[0], rest})
	}
	return res
}

// status --debug JSON -> model status trees
type jsonStatus struct {
	Checksum            string                 `json:"checksum"`
	Path                string                 `json:"path"`
	IsDir               bool                   `json:"is-dir"`
	DisableRecursion    bool                   `json:"disable-recursion"`
	SkipCache           bool                   `json:"skip-cache"`
	WorkspaceFileStatus string                 `json:"WorkspaceFileStatus"`
	HasChecksum         bool                   `json:"HasChecksum"`
	ChecksumInCache     bool                   `json:"ChecksumInCache"`
	ContentsMatch       bool                   `json:"ContentsMatch"`
	ChildrenStatus      map[string]*jsonStatus `json:"ChildrenStatus"`
}
type jsonStageStatus struct {
	HasChecksum     bool
	ChecksumMatches bool
	ArtifactStatus  map[string]*jsonStatus
}

var fstatusCoq = map[string]string{"absent": "SAbsent", "regular file": "SRegular", "link": "SLink", "directory": "SDirectory", "other": "SOther"}

func (s *jsonStatus) coq() string {
	kids := make([]string, 0, len(s.ChildrenStatus))
	for _, k := range sortedKeys(s.ChildrenStatus) {
		kids = append(kids, "("+cxs(k)+", "+s.ChildrenStatus[k].coq()+")")
	}
	a := Art{s.Checksum, s.Path, s.IsDir, s.DisableRecursion, s.SkipCache}
	return fmt.Sprintf("St (%s) %s %s %s %s %s", a.coq(), fstatusCoq[s.WorkspaceFileStatus], cbool(s.HasChecksum), cbool(s.ChecksumInCache), cbool(s.ContentsMatch), clist(kids))
}

func parseStatusDebug(out string) (string, bool) {
	i := strings.Index(out, "{")
	if i < 0 {
		return "ONone", false
	}
	var m map[string]*jsonStageStatus
	if err := json.Unmarshal([]byte(out[i:]), &m); err != nil {
		return "ONone", false
	}
	var parts []string
	for _, sp := range sortedKeys(m) {
		ss := m[sp]
		var arts []string
		for _, ap := range sortedKeys(ss.ArtifactStatus) {
			arts = append(arts, "("+cxs(ap)+", "+ss.ArtifactStatus[ap].coq()+")")
		}
		parts = append(parts, fmt.Sprintf("(%s, mkSS %s %s %s)", cxs(sp), cbool(ss.HasChecksum), cbool(ss.ChecksumMatches), clist(arts)))
	}
	return "OStatus " + clist(parts), true
}

type Transition struct {
	ID    int
	Sems  []CmdSem
	Pre   *World
	Cmd   Cmd
	OK    bool
	Post  *World
	Out   string // Coq term of type output
	Ref   *Node
	Specs []int
	Obs   []int
	Text  [][2]string
	Prot  []string // paths the scenario DEFINED as plain inputs / skip-cache artifacts (spec 10)
	Info  map[string]interface{}
	Res   runRes
}

func (t *Transition) coq() string {
	sems := make([]string, len(t.Sems))
	for i, k := range t.Sems {
		sems[i] = k.coq()
	}
	ref := "None"
	if t.Ref != nil {
		ref = "Some (" + t.Ref.coq() + ")"
	}
	sp := make([]string, len(t.Specs))
	for i, s := range t.Specs {
		sp[i] = fmt.Sprint(s)
	}
	out := t.Out
	if out == "" {
		out = "ONone"
	}
	ob := make([]string, len(t.Obs))
	for i, s := range t.Obs {
		ob[i] = fmt.Sprint(s)
	}
	tx := make([]string, len(t.Text))
	for i, pt := range t.Text {
		tx[i] = "(" + cxs(pt[0]) + ", " + cxs(pt[1]) + ")"
	}
	pr := make([]string, len(t.Prot))
	for i, x := range t.Prot {
		pr[i] = cxs(x)
	}
	return fmt.Sprintf("mkT %d %s\n (%s)\n (%s) %s\n (%s)\n (%s) (%s) %s %s %s %s", t.ID, clist(sems), t.Pre.coq(), t.Cmd.coq(), cbool(t.OK), t.Post.coq(), out, ref, clist(sp), clist(ob), clist(tx), clist(pr))
}

// do runs one dud command and records the transition.
func (p *Project) do(c Cmd, sems []CmdSem, specs []int, ref *Node, pre *World) (*Transition, *World) {
	if pre == nil {
		pre = p.observe()
	}
	rawBefore := p.rawMeta()
	res := p.dud(c.Cwd, c.argv()...)
	rawAfter := p.rawMeta()
	post := p.observe()
	var obs []int
	if p.Hung {
		obs = append(obs, 3)
	}
	// 8: an entry the world does not model appeared or vanished (names directly under .dud, the
	// cache directory itself): "byte-for-byte unchanged" includes those
	if rawBefore != rawAfter {
		obs = append(obs, 8)
	}
	// 100+i: the i-th stage file (order of the pre-state) was physically touched
	for i, a := range pre.Stages {
		for _, b := range post.Stages {
			if a.Path == b.Path && (string(a.Raw) != string(b.Raw) || a.Ino != b.Ino || a.Mtim != b.Mtim) {
				obs = append(obs, 100+i)
			}
		}
	}
	if c.Kind != "stageadd" && c.Kind != "stagerm" {
		// no command but stage add / remove touches a definition (spec 38), whatever else it is asked to show
		specs = append(append([]int{}, specs...), want(38)...)
	}
	t := &Transition{Sems: sems, Pre: pre, Cmd: c, OK: res.Exit == 0, Post: post, Ref: ref, Specs: specs, Res: res, Obs: obs,
		Info: map[string]interface{}{"cmd": strings.Join(append([]string{"dud"}, c.argv()...), " "), "cwd": c.Cwd, "exit": res.Exit}}
	if res.Exit != 0 {
		e := strings.TrimSpace(res.Stderr)
		if len(e) > 300 {
			e = e[len(e)-300:]
		}
		t.Info["stderr"] = e
	}
	if c.Kind == "status" && res.Exit == 0 {
		t.Out, _ = parseStatusDebug(res.Stdout)
	}
	if c.Kind == "push" || c.Kind == "fetch" {
		// the visit log: dud announces every stage whose outputs it transfers, in completion order
		var tags []string
		for _, l := range strings.Split(res.Stdout+"\n"+res.Stderr, "\n") {
			for _, pre := range []string{"pushing stage ", "fetching stage "} {
				if strings.HasPrefix(l, pre) {
					tags = append(tags, cxs(strings.TrimPrefix(l, pre)))
				}
			}
		}
		t.Out = "ORun " + clist(tags)
	}
	if c.Kind == "run" {
		// the execution log is the suffix the commands appended to .runlog during this run
		before := p.lastRunlog
		after, _ := os.ReadFile(filepath.Join(p.Root, ".runlog"))
		p.lastRunlog = after
		var tags []string
		if len(after) >= len(before) {
			for _, l := range strings.Split(strings.TrimSpace(string(after[len(before):])), "\n") {
				if l != "" {
					tags = append(tags, cxs(l))
				}
			}
		}
		t.Out = "ORun " + clist(tags)
	}
	return t, post
}

const sysImports = "From DudV Require Import Base.Bytes Model.Fs Model.Cache Model.Stage Model.Index Model.System Corr.RunSys."

func emitTransitions(o *opts, fam string, ts []*Transition, s *summary, per int) {
	terms := make([]string, len(ts))
	for i, t := range ts {
		t.ID = i + 1
		terms[i] = t.coq()
		info := t.Info
		info["specs"] = t.Specs
		info["ok"] = t.OK
		s.CaseIndex[fmt.Sprint(t.ID)] = info
	}
	writeShards(o.out, fam, sysImports, "tcase", "run_sys", terms, per, s)
}
