package main

// Family "race" (C13, C14): runs INSIDE a harness binary built with `go build -race` (the check
// builds a second binary for it and sets GORACE=log_path=<out>/race exitcode=0): directory commits,
// status and checkout through the exported cache API on directories wider than the worker pools, and
// a concurrent batch of checksum computations. Observations: the number of data-race reports the
// race detector wrote, and the number of recorded checksums that differ from an independent BLAKE3
// of the file's bytes. Every round runs in a child process: a crash inside dud's own goroutines
// (e.g. a hasher used by two of them) then costs one round, not the run.

import (
	"bytes"
	"encoding/json"
	"fmt"
	"os"
	"os/exec"
	"path/filepath"
	"runtime"
	"strings"
	"sync"
	"time"

	"github.com/kevin-hanselman/dud/src/agglog"
	"github.com/kevin-hanselman/dud/src/artifact"
	"github.com/kevin-hanselman/dud/src/cache"
	"github.com/kevin-hanselman/dud/src/checksum"
	"github.com/kevin-hanselman/dud/src/strategy"
	"github.com/zeebo/blake3"
)

func init() { families["race"] = runRace }

func refDigest(b []byte) string {
	h := blake3.Sum256(b)
	return fmt.Sprintf("%x", h[:])
}

// raceRound: one directory commit / status / checkout plus a concurrent checksum batch; returns the
// number of wrong checksums and unexpected errors.
func raceRound(o *opts, r *rng, round, width int) int {
	base := scenarioDir(o, "race", round)
	defer rmrf(base)
	work := filepath.Join(base, "work")
	data := filepath.Join(work, "data")
	for k := 0; k < 5; k++ {
		must(os.MkdirAll(filepath.Join(data, fmt.Sprintf("sub%d", k)), 0o755))
	}
	want := map[string]string{}
	for k := 0; k < width; k++ {
		b := append([]byte(fmt.Sprintf("file %d of round %d ", k, round)), r.bytes(200+r.intn(3000))...)
		name := fmt.Sprintf("f%04d", k)
		if k%3 == 0 {
			name = fmt.Sprintf("sub%d/", k%5) + name // several sibling sub-directories
		}
		must(os.WriteFile(filepath.Join(data, name), b, 0o644))
		want[name] = refDigest(b)
	}
	cacheDir := filepath.Join(base, "cache")
	ch, err := cache.NewLocalCache(cacheDir)
	must(err)
	art := artifact.Artifact{Path: "data", IsDir: true}
	strat := strategy.LinkStrategy
	if round%2 == 1 {
		strat = strategy.CopyStrategy
	}
	wrong := 0
	if cerr := ch.Commit(work, &art, strat, agglog.NewNullLogger()); cerr != nil {
		wrong++
		fmt.Fprintln(os.Stderr, "race: commit:", cerr)
	} else {
		// every checksum recorded in the manifests is the BLAKE3 of that file's bytes
		var walk func(cs, rel string)
		walk = func(cs, rel string) {
			p, _ := ch.PathForChecksum(cs)
			if !filepath.IsAbs(p) {
				p = filepath.Join(cacheDir, p)
			}
			raw, err := os.ReadFile(p)
			if err != nil {
				wrong++
				fmt.Fprintln(os.Stderr, "race: manifest", cs, err)
				return
			}
			var m struct {
				Contents map[string]struct {
					Checksum string `json:"checksum"`
					IsDir    bool   `json:"is-dir"`
				} `json:"contents"`
			}
			if json.Unmarshal(raw, &m) != nil {
				wrong++
				return
			}
			for name, a := range m.Contents {
				full := strings.TrimPrefix(rel+"/"+name, "/")
				if a.IsDir {
					walk(a.Checksum, full)
				} else if want[full] != a.Checksum {
					wrong++
					fmt.Fprintln(os.Stderr, "race: checksum of", full, "is", a.Checksum, "want", want[full])
				}
			}
		}
		walk(art.Checksum, "")
		if round%3 == 2 {
			// the same cache as an older dud left it: every manifest in the old schema (decoded by
			// the concurrent workers of status and checkout)
			n := 0
			superseded, rewrittenNew = nil, map[string]bool{}
			art.Checksum = rewriteManifest(cacheDir, art.Checksum, "", func(string) bool { return true }, &n)
		}
		if st, serr := ch.Status(work, art, false); serr != nil {
			wrong++
			fmt.Fprintln(os.Stderr, "race: status:", serr)
		} else if !st.ContentsMatch {
			wrong++
			fmt.Fprintln(os.Stderr, "race: status right after commit is not up to date")
		}
		if _, serr := ch.Status(work, art, true); serr != nil {
			wrong++
			fmt.Fprintln(os.Stderr, "race: status:", serr)
		}
		os.RemoveAll(data)
		if err := ch.Checkout(work, art, strat, nil); err != nil {
			wrong++
			fmt.Fprintln(os.Stderr, "race: checkout:", err)
		}
	}
	// operations that FAIL: the recorded checksum of the directory names an object that is there but
	// is no manifest (a file's bytes). Each must return an error - and leave no goroutine behind.
	if leaked := cacheGoroutines(); leaked > 0 {
		wrong += leaked
		fmt.Fprintln(os.Stderr, "race: goroutines of package cache still alive after successful operations:", leaked)
	}
	for name, cs := range want {
		if _, err := os.Stat(filepath.Join(data, name)); err != nil {
			break
		}
		bad := artifact.Artifact{Path: "data", IsDir: true, Checksum: cs}
		if err := ch.Commit(work, &bad, strat, agglog.NewNullLogger()); err == nil {
			wrong++
			fmt.Fprintln(os.Stderr, "race: commit over an undecodable old manifest succeeded")
		}
		bad = artifact.Artifact{Path: "data", IsDir: true, Checksum: cs}
		if _, err := ch.Status(work, bad, false); err == nil {
			wrong++
			fmt.Fprintln(os.Stderr, "race: status with an undecodable manifest succeeded")
		}
		if err := ch.Checkout(work, bad, strat, nil); err == nil {
			wrong++
			fmt.Fprintln(os.Stderr, "race: checkout with an undecodable manifest succeeded")
		}
		if leaked := cacheGoroutines(); leaked > 0 {
			wrong += leaked
			fmt.Fprintln(os.Stderr, "race: goroutines of package cache still alive after failed operations:", leaked)
		}
		break
	}
	// a concurrent batch of plain checksum computations sharing the pools
	var wg sync.WaitGroup
	var mu sync.Mutex
	for g := 0; g < 32; g++ {
		wg.Add(1)
		go func(g int) {
			defer wg.Done()
			for k := 0; k < 20; k++ {
				b := []byte(fmt.Sprintf("stream %d %d %d ", round, g, k) + strings.Repeat("x", (g*131+k*17)%5000))
				got, err := checksum.Checksum(&scriptReader{data: b, yield: true})
				if err != nil || got != refDigest(b) {
					mu.Lock()
					wrong++
					fmt.Fprintln(os.Stderr, "race: stream checksum", got, err, "want", refDigest(b))
					mu.Unlock()
				}
			}
		}(g)
	}
	wg.Wait()
	return wrong
}

// cacheGoroutines: how many goroutines are still inside dud's cache package (after giving them a
// moment to finish)
func cacheGoroutines() int {
	n := 0
	for try := 0; try < 80; try++ {
		buf := make([]byte, 1<<22)
		buf = buf[:runtime.Stack(buf, true)]
		n = 0
		for _, g := range strings.Split(string(buf), "\n\n") {
			if strings.Contains(g, "dud/src/cache.") && !strings.Contains(g, "harness") && !strings.Contains(g, "main.raceRound") {
				n++
			}
		}
		if n == 0 {
			return 0
		}
		time.Sleep(50 * time.Millisecond)
	}
	return n
}

func runRace(o *opts) {
	r := newRng(o.seed)
	rounds, width := 3, 160
	if o.tier == "thorough" {
		rounds, width = 10, 600
	}
	if rs := os.Getenv("VERIF_RACE_ROUND"); rs != "" {
		// child: one round, result on stdout
		var round int
		fmt.Sscan(rs, &round)
		rr := r
		for k := 0; k <= round; k++ {
			rr = r.fork()
		}
		fmt.Printf("WRONG %d\n", raceRound(o, rr, round, width))
		return
	}
	s := newSummary("race", o.seed, o.tier)
	var cases []string
	id := 0
	wrongTotal := 0
	for round := 0; round < rounds; round++ {
		cmd := exec.Command(os.Args[0], os.Args[1:]...)
		cmd.Env = append(os.Environ(), fmt.Sprintf("VERIF_RACE_ROUND=%d", round))
		var so, se bytes.Buffer
		cmd.Stdout, cmd.Stderr = &so, &se
		err := cmd.Run()
		wrong := -1
		for _, l := range strings.Split(so.String(), "\n") {
			fmt.Sscanf(l, "WRONG %d", &wrong)
		}
		info := map[string]interface{}{"round": round, "files": width, "strategy": []string{"link", "copy"}[round%2]}
		if err != nil || wrong < 0 {
			wrong = 1
			info["crashed"] = lastLines(se.String(), 6)
		} else if wrong > 0 {
			info["stderr"] = lastLines(se.String(), 4)
		}
		info["wrong_checksums_or_errors"] = wrong
		wrongTotal += wrong
		id++
		s.CaseIndex[fmt.Sprint(id)] = info
		s.count("strategy:" + []string{"link", "copy"}[round%2])
		cases = append(cases, fmt.Sprintf("mkRace %d %d 0", id, wrong))
	}
	// the race detector's reports (GORACE=log_path=<out>/race): one file per process
	reports := 0
	logs, _ := filepath.Glob(filepath.Join(o.out, "race.*"))
	for _, l := range logs {
		b, _ := os.ReadFile(l)
		reports += strings.Count(string(b), "WARNING: DATA RACE")
	}
	id++
	s.CaseIndex[fmt.Sprint(id)] = map[string]interface{}{"data_race_reports": reports, "race_detector_enabled": raceEnabled}
	off := 1
	if raceEnabled {
		off = 0
	}
	cases = append(cases, fmt.Sprintf("mkRace %d %d %d", id, reports, off))
	s.Cases = len(cases)
	s.Nontrivial = len(cases)
	s.Rule = "in-process (race-detector build) directory commit / status / checkout through the exported cache API on directories of 160 (thorough: 600) files, both strategies, every recorded checksum compared with an independent BLAKE3; 32 goroutines x 20 checksum computations with yielding readers; last case = number of DATA RACE reports; every case is non-trivial"
	s.Samples = append(s.Samples, s.CaseIndex["1"], s.CaseIndex[fmt.Sprint(id)])
	s.Extra["wrong_total"] = fmt.Sprint(wrongTotal)
	s.Extra["data_race_reports"] = fmt.Sprint(reports)
	writeShards(o.out, "race", "From DudV Require Import Corr.RunLock.", "racecase", "run_race", cases, 1000, s)
	s.write(o.out)
	rmrf(filepath.Join(o.out, "w"))
}
