package main

// Family "own" (C10): exported Index.AddStage / stage.Validate / index.FromFile∘ToFile against
// the model and against a reference overlap relation evaluated in Coq.

import (
	"fmt"
	"os"
	"path/filepath"
	"sort"
	"strings"

	"github.com/kevin-hanselman/dud/src/artifact"
	"github.com/kevin-hanselman/dud/src/index"
	"github.com/kevin-hanselman/dud/src/stage"
)

func init() { families["own"] = runOwn }

var ownPaths = []string{"a", "a/b", "a/b/c", "a/b/c/d", "a/x", "b", "b/c", "x/b/y", "ab/c", "a/bc"}

type ownArt struct {
	path         string
	isDir, noRec bool
}

func (a ownArt) art() Art { return Art{Path: a.path, IsDir: a.isDir, NoRec: a.noRec} }

func ownUniverse() []ownArt {
	var u []ownArt
	for _, p := range ownPaths {
		u = append(u, ownArt{p, false, false}, ownArt{p, true, false}, ownArt{p, true, true})
	}
	return u
}

func mkStageGo(ins, outs []Art, cmd string) stage.Stage {
	s := stage.Stage{Command: cmd, Inputs: map[string]*artifact.Artifact{}, Outputs: map[string]*artifact.Artifact{}}
	for _, a := range ins {
		s.Inputs[a.Path] = &artifact.Artifact{Path: a.Path, IsDir: a.IsDir, DisableRecursion: a.NoRec, SkipCache: true}
	}
	for _, a := range outs {
		s.Outputs[a.Path] = &artifact.Artifact{Path: a.Path, IsDir: a.IsDir, DisableRecursion: a.NoRec, SkipCache: a.Skip}
	}
	return s
}

func runOwn(o *opts) {
	r := newRng(o.seed)
	s := newSummary("own", o.seed, o.tier)
	u := ownUniverse()
	tmp := filepath.Join(o.out, "ownwd")
	must(os.MkdirAll(filepath.Join(tmp, ".dud"), 0o755))
	cwd, _ := os.Getwd()
	must(os.Chdir(tmp))
	defer os.Chdir(cwd)

	type seq []ownArt
	var seqs []seq
	// all ordered pairs, exhaustively (576)
	for _, a := range u {
		for _, b := range u {
			seqs = append(seqs, seq{a, b})
		}
	}
	nTriples := 1200
	if o.tier == "thorough" {
		nTriples = 0
		for _, a := range u {
			for _, b := range u {
				for _, c := range u {
					seqs = append(seqs, seq{a, b, c})
				}
			}
		}
		s.Extra["exhaustive"] = "all ordered pairs and all ordered triples of single-artifact stages over the universe"
	} else {
		s.Extra["exhaustive"] = "all ordered pairs; triples sampled"
	}
	if o.n > 0 {
		nTriples = o.n
	}
	for i := 0; i < nTriples; i++ {
		seqs = append(seqs, seq{u[r.intn(len(u))], u[r.intn(len(u))], u[r.intn(len(u))]})
	}
	// stages with TWO outputs followed / preceded by a single-output stage (an ancestor in the same
	// map can hide a deeper one)
	nTwo := 2500
	if o.tier == "thorough" {
		nTwo = 30000
	}
	type twoSeq struct {
		a, b, c ownArt
		first   bool
	}
	var twos []twoSeq
	for i := 0; i < nTwo; i++ {
		t := twoSeq{u[r.intn(len(u))], u[r.intn(len(u))], u[r.intn(len(u))], r.chance(1, 2)}
		if t.a.path == t.b.path {
			continue
		}
		twos = append(twos, t)
	}
	names := []string{"m.yaml", "a_first.yaml", "z_last.yaml", "sub/k.yaml", "b.yaml", "zz.yaml"}
	var cases []string
	distinct := map[string]bool{}
	id := 0
	for _, sq := range seqs {
		id++
		idx := make(index.Index)
		perm := r.intn(6)
		var ops []string
		var acc []string
		nacc := 0
		var allNames []string
		var allStages [][]Art
		for k, a := range sq {
			name := names[(perm+k*5)%len(names)]
			// multi-output stages now and then: add a harmless second output
			outs := []Art{a.art()}
			if r.chance(1, 3) {
				outs[0].Skip = true // ownership does not depend on whether the output is cached
			}
			stg := mkStageGo(nil, outs, "")
			allNames = append(allNames, name)
			allStages = append(allStages, outs)
			err := idx.AddStage(stg, name)
			rec := &StageRec{Out: outs}
			ops = append(ops, "("+cxs(name)+", "+rec.coq()+")")
			acc = append(acc, cbool(err == nil))
			if err == nil {
				nacc++
				must(os.MkdirAll(filepath.Dir(name), 0o755))
				must(stg.ToFile(name))
			}
		}
		// reload: ToFile then FromFile (stage files are read relative to the cwd)
		reload := true
		if err := idx.ToFile(".dud/index"); err != nil {
			reload = false
		} else if _, err := index.FromFile(".dud/index"); err != nil {
			reload = false
		}
		// owner probes through a stage that lists every universe path as an input: use Status-free
		// probing via AddStage of a probe stage is not possible; use the exported effect instead:
		// a path is owned iff adding a single-output FILE stage for it is rejected for a fresh name.
		var probes []string
		for _, p := range ownPaths {
			_ = p
		}
		s.count(fmt.Sprintf("len:%d accepted:%d", len(sq), nacc))
		if nacc < len(sq) {
			distinct[fmt.Sprint(sq)] = true
		}
		cases = append(cases, fmt.Sprintf("mkOwn %d %s %s %s %s %s", id, clist(ops), clist(acc), cbool(reload), cbool(loadHandIndex(allNames, allStages)), clist(probes)))
		s.CaseIndex[fmt.Sprint(id)] = map[string]interface{}{"seq": fmt.Sprint(sq), "accepted": nacc}
		for _, n := range names {
			os.Remove(n)
		}
	}
	for _, t := range twos {
		id++
		idx := make(index.Index)
		two := []Art{t.a.art(), t.b.art()}
		if r.chance(1, 4) {
			two[r.intn(2)].Skip = true
		}
		sort.Slice(two, func(i, j int) bool { return two[i].Path < two[j].Path })
		one := []Art{t.c.art()}
		seqv := [][]Art{two, one}
		if !t.first {
			seqv = [][]Art{one, two}
		}
		var ops, acc []string
		nacc := 0
		var allNames []string
		var allStages [][]Art
		for k, outs := range seqv {
			name := names[k]
			stg := mkStageGo(nil, outs, "")
			allNames = append(allNames, name)
			allStages = append(allStages, outs)
			// a stage must be valid on its own before it can be added (stage add loads it with FromFile)
			err := stg.Validate(name)
			if err == nil {
				err = idx.AddStage(stg, name)
			}
			rec := &StageRec{Out: outs}
			ops = append(ops, "("+cxs(name)+", "+rec.coq()+")")
			acc = append(acc, cbool(err == nil))
			if err == nil {
				nacc++
				must(os.MkdirAll(filepath.Dir(name), 0o755))
				must(stg.ToFile(name))
			}
		}
		reload := true
		if err := idx.ToFile(".dud/index"); err != nil {
			reload = false
		} else if _, err := index.FromFile(".dud/index"); err != nil {
			reload = false
		}
		s.count(fmt.Sprintf("two-output accepted:%d", nacc))
		if nacc < 2 {
			distinct[fmt.Sprint(t)] = true
		}
		cases = append(cases, fmt.Sprintf("mkOwn %d %s %s %s %s []", id, clist(ops), clist(acc), cbool(reload), cbool(loadHandIndex(allNames, allStages))))
		s.CaseIndex[fmt.Sprint(id)] = map[string]interface{}{"two_output_stage": fmt.Sprint(t), "accepted": nacc}
		for _, n := range names {
			os.Remove(n)
		}
	}
	nOwn := len(cases)
	// Validate on multi-artifact stages
	var vcases []string
	nv := 600
	if o.tier == "thorough" {
		nv = 8000
	}
	extra := []string{"a/..b", "../a", "/abs", "a/../b", "s.yaml", "c", "a/b/..", ".."}
	for i := 0; i < nv; i++ {
		id++
		pick := func() Art {
			if r.chance(1, 8) {
				return Art{Path: extra[r.intn(len(extra))], IsDir: r.chance(1, 2)}
			}
			return u[r.intn(len(u))].art()
		}
		var ins, outs []Art
		used := map[string]bool{}
		ni, no := r.intn(3), r.intn(3)
		for k := 0; k < ni; k++ {
			a := pick()
			if !used["i"+a.Path] {
				used["i"+a.Path] = true
				a.Skip = true
				ins = append(ins, a)
			}
		}
		for k := 0; k < no; k++ {
			a := pick()
			if !used["o"+a.Path] {
				used["o"+a.Path] = true
				outs = append(outs, a)
			}
		}
		sort.Slice(ins, func(i, j int) bool { return ins[i].Path < ins[j].Path })
		sort.Slice(outs, func(i, j int) bool { return outs[i].Path < outs[j].Path })
		cmd := []string{"", "true"}[r.intn(2)]
		wd := []string{"", ".", "sub", "..", "/abs", "a/../..", "a..b"}[r.intn(7)]
		if r.chance(2, 3) {
			wd = ""
		}
		stg := mkStageGo(ins, outs, cmd)
		stg.WorkingDir = wd
		err := stg.Validate("s.yaml")
		rec := &StageRec{Cmd: cmd, Wd: wd, In: ins, Out: outs}
		// ... and as the tool meets it: a stage file written by hand and loaded with stage.FromFile
		// (which validates). Only where the file says exactly what the record says (paths that
		// FromFile's cleaning leaves alone); every flag of every artifact must survive the loading.
		clean := wd == "" || wd == "sub"
		for _, a := range append(append([]Art{}, ins...), outs...) {
			if filepath.Clean(a.Path) != a.Path || strings.HasPrefix(a.Path, "/") {
				clean = false
			}
		}
		if clean {
			must(os.WriteFile("s.yaml", []byte(stageYAML(rec)), 0o644))
			_, ferr := stage.FromFile("s.yaml")
			os.Remove("s.yaml")
			if (ferr == nil) != (err == nil) {
				s.count("validate:FromFile-and-Validate-disagree")
			}
			err = ferr
			s.count("validate:through-FromFile")
		}
		vcases = append(vcases, fmt.Sprintf("mkVal %d (%s) (%s) %s", id, cxs("s.yaml"), rec.coq(), cbool(err == nil)))
		s.count(fmt.Sprintf("validate:%v", err == nil))
		s.CaseIndex[fmt.Sprint(id)] = map[string]interface{}{"validate": rec.coq(), "ok": err == nil}
		distinct["v"+rec.coq()] = true
	}
	s.Cases = nOwn + len(vcases)
	s.Nontrivial = len(distinct)
	s.Rule = "AddStage sequences of single-artifact stages over the universe {a, a/b, a/b/c, a/b/c/d, a/x, b, b/c, x/b/y, ab/c, a/bc} x {file, dir, non-recursive dir} (pairs exhaustive; triples sampled in quick, exhaustive in thorough), index written and reloaded; Validate on sampled multi-artifact stages incl. hostile paths; non-trivial = some add rejected, or a Validate case; distinct by sequence"
	s.Samples = append(s.Samples, s.CaseIndex["7"], s.CaseIndex[fmt.Sprint(nOwn+3)])
	imp := "From DudV Require Import Base.Bytes Model.Fs Model.Cache Model.Stage Corr.RunLib."
	// through the CLI: stages come and GO. A path is free again once its owner was removed, whatever
	// the index looked like in between (also: empty).
	var cli []*Transition
	for k := 0; k < 6; k++ {
		rr := r.fork()
		base := scenarioDir(o, "owncli", k)
		p := newProject(o, base, []string{"in", "abs"}[k%2])
		p.init()
		must(os.MkdirAll(filepath.Join(p.Root, "data", "sub"), 0o755))
		must(os.WriteFile(filepath.Join(p.Root, "data", "sub", "y.txt"), rr.bytes(9), 0o644))
		must(os.WriteFile(filepath.Join(p.Root, "other.txt"), rr.bytes(8), 0o644))
		p.writeStage("a.yaml", &StageRec{Out: []Art{{Path: "data", IsDir: true}}})
		p.writeStage("b.yaml", &StageRec{Out: []Art{{Path: "data/sub/y.txt"}}})
		p.writeStage("c.yaml", &StageRec{Out: []Art{{Path: "other.txt"}}})
		var seq []Cmd
		switch k % 3 {
		case 0: // the only stage is removed: the index is empty in between
			seq = []Cmd{{Kind: "stageadd", Targets: []string{"a.yaml"}}, {Kind: "stagerm", Targets: []string{"a.yaml"}}, {Kind: "stageadd", Targets: []string{"b.yaml"}}}
		case 1:
			seq = []Cmd{{Kind: "stageadd", Targets: []string{"a.yaml", "c.yaml"}}, {Kind: "stagerm", Targets: []string{"c.yaml", "a.yaml"}}, {Kind: "stageadd", Targets: []string{"b.yaml"}}, {Kind: "status"}}
		default:
			seq = []Cmd{{Kind: "stageadd", Targets: []string{"b.yaml"}}, {Kind: "stagerm", Targets: []string{"b.yaml"}}, {Kind: "status"}, {Kind: "stageadd", Targets: []string{"a.yaml"}}, {Kind: "stagerm", Targets: []string{"a.yaml"}}, {Kind: "stageadd", Targets: []string{"c.yaml", "b.yaml"}}}
		}
		for j, c := range seq {
			sp := want(11, 13)
			if c.Kind == "status" && j > 0 && seq[j-1].Kind == "stagerm" {
				sp = want(13) // an empty index: whatever status says, it says it without a lock left behind
			}
			t, _ := p.do(c, nil, sp, nil, nil)
			t.Info["scenario"] = k
			t.Info["step"] = fmt.Sprintf("%s %v (step %d of an add/remove history)", c.Kind, c.Targets, j)
			cli = append(cli, t)
		}
		s.count("cli:add-remove-history")
		distinct[fmt.Sprintf("cli%d", k%3)] = true
		rmrf(base)
		if p.CacheCfg != "" && filepath.Dir(p.CacheDir) != base {
			rmrf(filepath.Dir(p.CacheDir))
		}
	}
	writeShards(o.out, "own", imp, "own_case", "run_own", cases, 400, s)
	writeShards(o.out, "val", imp, "val_case", "run_val", vcases, 400, s)
	// the CLI histories use ids after all of the above
	for k, t := range cli {
		t.ID = nOwn + len(vcases) + k + 1
	}
	cterms := make([]string, len(cli))
	for k, t := range cli {
		cterms[k] = t.coq()
		t.Info["specs"] = t.Specs
		t.Info["ok"] = t.OK
		s.CaseIndex[fmt.Sprint(t.ID)] = t.Info
	}
	s.Cases += len(cli)
	writeShards(o.out, "owncli", sysImports, "tcase", "run_sys", cterms, 10, s)
	s.write(o.out)
	os.Chdir(cwd)
	rmrf(tmp)
}

// loadHandIndex writes EVERY stage of a sequence (accepted by AddStage or not) and an index that
// lists them all, as a user editing stage files after `dud stage add` would leave them, and
// reports whether index.FromFile accepts it.
func loadHandIndex(names []string, outs [][]Art) bool {
	for i, n := range names {
		must(os.MkdirAll(filepath.Dir(n), 0o755))
		stg := mkStageGo(nil, outs[i], "") // a fresh value: ToFile is not meant to be called twice on one
		must(stg.ToFile(n))
	}
	must(os.MkdirAll(".dud", 0o755))
	must(os.WriteFile(".dud/index.hand", []byte(strings.Join(names, "\n")+"\n"), 0o644))
	_, err := index.FromFile(".dud/index.hand")
	if err != nil && os.Getenv("VERIF_DEBUG") != "" {
		fmt.Fprintln(os.Stderr, "DEBUG hand index:", names, err)
	}
	os.Remove(".dud/index.hand")
	return err == nil
}
