package main

// Families built on a committed artifact:
//   prestate (C06): arbitrary pre-existing workspace entries, then checkout
//   corrupt  (C19): a damaged file object in the cache, then checkout --copy
//   edits    (C05): one user edit after commit, then status
//   hist     (C16): edit histories with recommits; recorded checksum = Merkle(path, content)

import (
	"fmt"
	"os"
	"path/filepath"
	"sort"
	"strings"
	"time"
)

func init() {
	families["prestate"] = runPrestate
	families["corrupt"] = runCorrupt
	families["edits"] = runEdits
	families["hist"] = runHist
}

type committed struct {
	p       *Project
	artPath string
	kind    string
	art     *Node
	w       *World
	ts      []*Transition
	copyCm  bool
	cleanup func()
}

// setupCommitted creates a project with one stage owning one artifact and commits it.
func setupCommitted(o *opts, r *rng, s *summary, fam string, i int, kinds []string, to treeOpts) *committed {
	base := scenarioDir(o, fam, i)
	loc := []string{"in", "in", "abs", "xdev", "rel"}[r.intn(5)]
	if o.shm == "" && loc == "xdev" {
		loc = "abs"
	}
	p := newProject(o, base, loc)
	c := &committed{p: p}
	c.cleanup = func() {
		rmrf(base)
		if loc == "xdev" {
			rmrf(filepath.Dir(p.CacheDir))
		}
	}
	p.init()
	var pool [][]byte
	c.kind = kinds[r.intn(len(kinds))]
	c.artPath = []string{"out", "data/out"}[r.intn(2)]
	if c.kind == "file" || c.kind == "skipfile" || c.kind == "inputfile" {
		c.art = nFile(genContent(r, &pool))
	} else {
		c.art = genTree(r, 0, to, &pool, s)
		if c.kind == "norec" {
			// several adjacent sub-directories: none of them is tracked by a non-recursive artifact
			for _, n := range []string{"zsub_a", "zsub_b", "zsub_c"} {
				c.art.set(n, nDir(Ent{"inner.txt", nFile(genContent(r, &pool))}))
			}
			c.art.sortEnts()
		}
	}
	abs := filepath.Join(p.Root, c.artPath)
	must(os.MkdirAll(filepath.Dir(abs), 0o755))
	materialize(abs, c.art, p.CacheDir)
	switch c.kind {
	case "skipfile":
		p.writeStage("s.yaml", &StageRec{Out: []Art{{Path: c.artPath, Skip: true}}})
	case "inputfile":
		p.writeStage("s.yaml", &StageRec{Cmd: "true", In: []Art{{Path: c.artPath}}})
	default:
		p.writeStage("s.yaml", &StageRec{Out: []Art{{Path: c.artPath, IsDir: c.kind != "file", NoRec: c.kind == "norec"}}})
	}
	res := p.dud("", "stage", "add", "s.yaml")
	if res.Exit != 0 {
		must(fmt.Errorf("stage add failed: %s", res.Stderr))
	}
	c.copyCm = r.chance(1, 2)
	t, w := p.do(Cmd{Kind: "commit", Copy: c.copyCm}, nil, want(11), nil, nil)
	t.Info["step"] = "initial commit"
	c.ts = append(c.ts, t)
	c.w = w
	s.count("kind:" + c.kind)
	s.count("cache:" + loc)
	s.count(fmt.Sprintf("commit-copy:%v", c.copyCm))
	return c
}

func tag(ts []*Transition, fam string, i int, extra map[string]interface{}) {
	for _, t := range ts {
		t.Info["scenario"] = i
		for k, v := range extra {
			if _, ok := t.Info[k]; !ok {
				t.Info[k] = v
			}
		}
	}
}

// walkLeaves calls f for every entry (path relative to the artifact, node) of a tree.
func walkEntries(n *Node, rel string, f func(rel string, n *Node)) {
	f(rel, n)
	if n.Kind == "d" {
		for _, e := range n.Ents {
			walkEntries(e.N, filepath.Join(rel, e.Name), f)
		}
	}
}

// ---------------- C06 ----------------

func runPrestate(o *opts) {
	r := newRng(o.seed)
	s := newSummary("prestate", o.seed, o.tier)
	n := 80
	if o.tier == "thorough" {
		n = 500
	}
	if o.n > 0 {
		n = o.n
	}
	var all []*Transition
	distinct := map[string]bool{}
	for i := 0; i < n; i++ {
		rr := r.fork()
		c := setupCommitted(o, rr, s, "prestate", i, []string{"file", "dir", "dir", "norec"}, treeOpts{maxDepth: 2, maxFan: 3, hostile: false, allowEmptyDir: true})
		if !c.ts[0].OK {
			c.cleanup()
			continue
		}
		p := c.p
		abs := filepath.Join(p.Root, c.artPath)
		// the committed view: what is at the artifact path now (links or files)
		cur := c.w.Root
		for _, comp := range splitPath(c.artPath) {
			cur = cur.get(comp)
		}
		// choose a pre-state for every entry of the committed tree
		rmrf(abs)
		// digests by content, so that an "other" link never happens to be the right one
		digests := map[string]string{}
		for _, ob := range c.w.Cache {
			digests[ob.Digest] = string(ob.Data)
		}
		kinds := map[string]int{}
		prestateScratch = filepath.Join(p.Root, "zz_scratch")
		pre := mutateForPrestate(rr, cur, c.art, digests, kinds, 0, c.kind == "norec")
		if kinds["link-to-live-dir"] > 0 {
			must(os.MkdirAll(prestateScratch, 0o755))
			must(os.WriteFile(filepath.Join(prestateScratch, "bystander"), []byte("not dud's"), 0o644))
		}
		for k, v := range kinds {
			for j := 0; j < v; j++ {
				s.count("pre:" + k)
			}
		}
		if pre != nil {
			must(os.MkdirAll(filepath.Dir(abs), 0o755))
			materialize(abs, pre, p.CacheDir)
		}
		cp := rr.chance(1, 2)
		s.count(fmt.Sprintf("checkout-copy:%v", cp))
		t, _ := p.do(Cmd{Kind: "checkout", Copy: cp}, nil, want(4, 8, 9, 13), nil, nil)
		t.Info["step"] = "checkout over pre-existing entries"
		t.Info["prestate_kinds"] = kinds
		if kinds["different-file"]+kinds["other-link"]+kinds["dangling-link"]+kinds["foreign-link"]+kinds["dir-for-file"]+kinds["file-for-dir"]+kinds["link-for-dir"] > 0 {
			// something is in the way: checkout must exit non-zero
			t.Specs = append(t.Specs, want(5)...)
			distinct[pre.coq()] = true
		} else if len(kinds) > 1 {
			distinct[fmt.Sprint(pre != nil)+c.art.coq()] = true
		}
		ts := append(c.ts[:0:0], t)
		tag(ts, "prestate", i, map[string]interface{}{"kind": c.kind})
		all = append(all, ts...)
		c.cleanup()
	}
	// the PARENT of a file artifact is a pre-existing entry too: an empty directory the user made, or a
	// link to a directory kept elsewhere. A checkout that cannot place the file leaves them alone.
	nparent := 6
	if o.tier == "thorough" {
		nparent = 40
	}
	for k := 0; k < nparent; k++ {
		rr := r.fork()
		base := scenarioDir(o, "prestatep", k)
		p := newProject(o, base, []string{"in", "abs"}[k%2])
		p.init()
		must(os.MkdirAll(filepath.Join(p.Root, "data"), 0o755))
		must(os.WriteFile(filepath.Join(p.Root, "data", "model.bin"), append([]byte("committed model "), rr.bytes(20)...), 0o644))
		p.writeStage("s.yaml", &StageRec{Out: []Art{{Path: "data/model.bin"}}})
		if res := p.dud("", "stage", "add", "s.yaml"); res.Exit != 0 {
			must(fmt.Errorf("prestate parent setup: %s", res.Stderr))
		}
		if res := p.dud("", "commit", "--copy"); res.Exit != 0 {
			must(fmt.Errorf("prestate parent commit: %s", res.Stderr))
		}
		rmrf(filepath.Join(p.Root, "data"))
		shape := []string{"symlinked-parent-with-a-different-file", "empty-parent-object-missing", "symlinked-empty-parent-object-missing"}[k%3]
		obs9 := false
		switch shape {
		case "symlinked-parent-with-a-different-file":
			must(os.MkdirAll(filepath.Join(p.Root, "store"), 0o755))
			must(os.WriteFile(filepath.Join(p.Root, "store", "model.bin"), []byte("the user's own bytes"), 0o644))
			must(os.WriteFile(filepath.Join(p.Root, "store", "notes.txt"), []byte("notes"), 0o644))
			must(os.Symlink("store", filepath.Join(p.Root, "data")))
			obs9 = true // the model has no linked directories on artifact paths: statements only
		case "empty-parent-object-missing", "symlinked-empty-parent-object-missing":
			if shape == "empty-parent-object-missing" {
				must(os.MkdirAll(filepath.Join(p.Root, "data"), 0o755))
			} else {
				must(os.MkdirAll(filepath.Join(p.Root, "store"), 0o755))
				must(os.Symlink("store", filepath.Join(p.Root, "data")))
				obs9 = true
			}
			for _, ob := range p.observe().Cache {
				os.Remove(cachePathOf(p.CacheDir, ob.Digest))
			}
		}
		t, _ := p.do(Cmd{Kind: "checkout", Copy: rr.chance(1, 2)}, nil, want(5, 21, 8, 9, 13), nil, nil)
		if obs9 {
			t.Obs = append(t.Obs, 9)
		}
		t.Info["step"] = "checkout that cannot place data/model.bin"
		t.Info["parent"] = shape
		tag([]*Transition{t}, "prestate", 5000+k, map[string]interface{}{"kind": "file-in-pre-existing-parent"})
		all = append(all, t)
		s.count("parent:" + shape)
		distinct["parent"+shape] = true
		rmrf(base)
		if p.CacheCfg != "" && filepath.Dir(p.CacheDir) != base {
			rmrf(filepath.Dir(p.CacheDir))
		}
	}
	// several stages in one invocation, the obstructed one named FIRST: the command still fails
	for k := 0; k < 4; k++ {
		rr := r.fork()
		base := scenarioDir(o, "prestatem", k)
		p := newProject(o, base, []string{"in", "abs"}[k%2])
		p.init()
		for _, n := range []string{"a", "b", "c"} {
			must(os.WriteFile(filepath.Join(p.Root, n+".txt"), append([]byte(n+" committed "), rr.bytes(10)...), 0o644))
			p.writeStage(n+".yaml", &StageRec{Out: []Art{{Path: n + ".txt"}}})
		}
		if res := p.dud("", "stage", "add", "a.yaml", "b.yaml", "c.yaml"); res.Exit != 0 {
			must(fmt.Errorf("prestate multi setup: %s", res.Stderr))
		}
		if res := p.dud("", "commit"); res.Exit != 0 {
			must(fmt.Errorf("prestate multi commit: %s", res.Stderr))
		}
		os.Remove(filepath.Join(p.Root, "a.txt"))
		must(os.WriteFile(filepath.Join(p.Root, "a.txt"), []byte("the user's own bytes"), 0o644))
		os.Remove(filepath.Join(p.Root, "b.txt"))
		c := Cmd{Kind: "checkout", Copy: k >= 2, Targets: []string{"a.yaml", "b.yaml", "c.yaml"}, Single: k%2 == 1}
		t, _ := p.do(c, nil, want(5, 4, 8, 9, 13), nil, nil)
		t.Info["step"] = "checkout of three stages, the first one obstructed"
		tag([]*Transition{t}, "prestate", 6000+k, map[string]interface{}{"kind": "three-stages-first-obstructed"})
		all = append(all, t)
		s.count("multi-stage:first-obstructed")
		distinct[fmt.Sprintf("multi%d", k)] = true
		rmrf(base)
		if p.CacheCfg != "" && filepath.Dir(p.CacheDir) != base {
			rmrf(filepath.Dir(p.CacheDir))
		}
	}
	s.Cases = len(all)
	s.Nontrivial = len(distinct)
	s.Rule = "three stages checked out in one invocation with the first one obstructed; file artifacts below a pre-existing parent (empty directory, link to a directory) that checkout cannot place: the parent stays; committed artifact x a pre-existing workspace state per manifest entry (absent, correct link, link to other object, dangling link, foreign link, equal file, different file, dir-for-file, file-for-dir, link-for-dir, extra files) x strategy; non-trivial = at least one pre-existing entry collides with a manifest entry; distinct by pre-state tree"
	if len(all) > 0 {
		s.Samples = append(s.Samples, all[0].Info, all[len(all)/2].Info)
	}
	emitTransitions(o, "prestate", all, s, 8)
	s.write(o.out)
	rmrf(filepath.Join(o.out, "w"))
}

func splitPath(p string) []string {
	var out []string
	for _, c := range filepath.SplitList(p) {
		_ = c
	}
	cur := ""
	for i := 0; i < len(p); i++ {
		if p[i] == '/' {
			if cur != "" {
				out = append(out, cur)
			}
			cur = ""
		} else {
			cur += string(p[i])
		}
	}
	if cur != "" {
		out = append(out, cur)
	}
	return out
}

// prestateScratch is the existing directory that "link-to-live-dir" pre-states point to.
var prestateScratch string

// mutateForPrestate builds the pre-existing workspace entry for a committed entry.
// cur = the entry as the commit left it (link or file), orig = the original content.
func mutateForPrestate(r *rng, cur, orig *Node, digests map[string]string, kinds map[string]int, depth int, norec bool) *Node {
	if orig.Kind == "d" {
		switch r.intn(10) {
		case 0:
			kinds["absent"]++
			return nil
		case 1:
			kinds["file-for-dir"]++
			return nFile([]byte("in the way"))
		case 2:
			kinds["link-for-dir"]++
			return &Node{Kind: "lo", Data: []byte("/nonexistent/dir")}
		case 3:
			// a link that resolves to an existing directory: stat-based calls follow it
			kinds["link-for-dir"]++
			kinds["link-to-live-dir"]++
			return &Node{Kind: "lo", Data: []byte(prestateScratch)}
		}
		n := &Node{Kind: "d"}
		for _, e := range orig.Ents {
			var c *Node
			if cur != nil && cur.Kind == "d" {
				c = cur.get(e.Name)
			}
			if norec && e.N.Kind == "d" {
				// sub-directories of a non-recursive artifact are not tracked: bystanders
				kinds["untracked-subdir"]++
				n.Ents = append(n.Ents, Ent{e.Name, e.N.clone()})
				continue
			}
			m := mutateForPrestate(r, c, e.N, digests, kinds, depth+1, false)
			if m != nil {
				n.Ents = append(n.Ents, Ent{e.Name, m})
			}
			if e.N.Kind == "f" && r.chance(1, 4) {
				// a bystander whose name is the entry's plus a suffix a temporary file might use
				by := e.Name + []string{".part", ".tmp", "~", ".bak", ".dud-link-1"}[r.intn(5)]
				if orig.get(by) == nil && n.get(by) == nil {
					kinds["suffix-named-bystander"]++
					n.Ents = append(n.Ents, Ent{by, nFile([]byte("bystander " + by))})
				}
			}
		}
		if r.chance(1, 4) {
			kinds["extra-file"]++
			n.Ents = append(n.Ents, Ent{"zz_extra_" + fmt.Sprint(r.intn(100)), nFile([]byte("bystander"))})
		}
		n.sortEnts()
		return n
	}
	switch r.intn(10) {
	case 0, 1:
		kinds["absent"]++
		return nil
	case 2:
		if cur != nil && cur.Kind == "lc" {
			kinds["correct-link"]++
			return cur.clone()
		}
		kinds["equal-file"]++
		return nFile(orig.Data)
	case 3:
		kinds["equal-file"]++
		return nFile(orig.Data)
	case 4:
		kinds["different-file"]++
		if r.chance(1, 2) {
			// the committed bytes followed by more (rows appended after a copy checkout)
			kinds["extended-file"]++
			return nFile(append(append([]byte{}, orig.Data...), []byte("\nappended later")...))
		}
		return nFile(append([]byte("different:"), orig.Data...))
	case 5:
		var others []string
		for _, d := range sortedKeys(digests) {
			if digests[d] != string(orig.Data) {
				others = append(others, d)
			}
		}
		if len(others) > 0 {
			kinds["other-link"]++
			return &Node{Kind: "lc", Data: []byte(others[r.intn(len(others))])}
		}
		kinds["dangling-link"]++
		return &Node{Kind: "lc", Data: []byte("00" + "ffffffffffffffffffffffffffffffffffffffffffffffffffffffffffffff")}
	case 6:
		kinds["foreign-link"]++
		return &Node{Kind: "lo", Data: []byte("/etc/hostname")}
	case 7:
		kinds["dir-for-file"]++
		return nDir(Ent{"inner", nFile([]byte("x"))})
	}
	kinds["dangling-link"]++
	if r.chance(2, 3) {
		// shaped like dud's own link to this very object, but into a cache that is not there (a link
		// made before the file or the project was moved): it does not resolve, so it is in the way
		for _, d := range sortedKeys(digests) {
			if digests[d] == string(orig.Data) && len(d) > 2 {
				kinds["dangling-link-named-like-the-object"]++
				pre := []string{"/nonexistent-cache/", "../../../../moved/.dud/cache/", "gone/"}[r.intn(3)]
				return &Node{Kind: "lo", Data: []byte(pre + d[:2] + "/" + d[2:])}
			}
		}
	}
	return &Node{Kind: "lo", Data: []byte("nowhere")}
}

// ---------------- C19 ----------------

func runCorrupt(o *opts) {
	r := newRng(o.seed)
	s := newSummary("corrupt", o.seed, o.tier)
	n := 30
	if o.tier == "thorough" {
		n = 300
	}
	if o.n > 0 {
		n = o.n
	}
	var all []*Transition
	distinct := map[string]bool{}
	for i := 0; i < n; i++ {
		rr := r.fork()
		c := setupCommitted(o, rr, s, "corrupt", i, []string{"file", "dir", "dir"}, treeOpts{maxDepth: 2, maxFan: 4, hostile: false, dupPair: true})
		if !c.ts[0].OK {
			c.cleanup()
			continue
		}
		p := c.p
		// file objects reachable from the artifact = objects whose bytes are file contents
		fileBytes := map[string]bool{}
		walkEntries(c.art, "", func(_ string, n *Node) {
			if n.Kind == "f" {
				fileBytes[string(n.Data)] = true
			}
		})
		var cands []CObj
		for _, ob := range c.w.Cache {
			if fileBytes[string(ob.Data)] {
				cands = append(cands, ob)
			}
		}
		if len(cands) == 0 {
			c.cleanup()
			continue
		}
		sort.Slice(cands, func(a, b int) bool { return cands[a].Digest < cands[b].Digest })
		victim := cands[rr.intn(len(cands))]
		if rr.chance(1, 3) {
			for _, cnd := range cands {
				if strings.HasPrefix(string(cnd.Data), "same bytes twice ") {
					victim = cnd // the object two entries share
				}
			}
		}
		how := []string{"flip-first", "flip-mid", "flip-last", "trunc1", "trunc0", "append"}[rr.intn(6)]
		data := append([]byte{}, victim.Data...)
		switch how {
		case "flip-first", "flip-mid", "flip-last":
			if len(data) == 0 {
				how = "append"
				data = append(data, 'x')
			} else {
				idx := map[string]int{"flip-first": 0, "flip-mid": len(data) / 2, "flip-last": len(data) - 1}[how]
				data[idx] ^= 0x40
			}
		case "trunc1", "trunc0":
			if len(data) == 0 {
				how = "append"
				data = append(data, 'x')
			} else if how == "trunc1" {
				data = data[:len(data)-1]
			} else {
				data = data[:0]
			}
		case "append":
			data = append(data, 'x')
		}
		s.count("damage:" + how)
		op := cachePathOf(p.CacheDir, victim.Digest)
		must(os.Chmod(op, 0o644))
		must(os.WriteFile(op, data, 0o644))
		must(os.Chmod(op, 0o444))
		// the workspace entry is absent, or (link commits) still the links the commit left behind
		ws := "absent"
		var holders []string // entries whose committed bytes are the victim's
		walkEntries(c.art, "", func(rel string, n *Node) {
			if n.Kind == "f" && string(n.Data) == string(victim.Data) {
				holders = append(holders, rel)
			}
		})
		switch {
		case !c.copyCm && rr.chance(1, 2):
			ws = "links-as-committed"
		case c.copyCm && len(holders) >= 2 && rr.chance(2, 3):
			// one intact regular copy of the bytes stays in the workspace, another entry with the
			// same bytes is missing and must come from the (corrupted) object
			ws = "one-of-two-identical-copies-missing"
			must(os.Remove(filepath.Join(p.Root, c.artPath, holders[len(holders)-1])))
		default:
			rmrf(filepath.Join(p.Root, c.artPath))
		}
		s.count("workspace:" + ws)
		t, _ := p.do(Cmd{Kind: "checkout", Copy: true}, nil, want(5, 8, 13, 4), nil, nil)
		t.Info["step"] = "checkout --copy with a corrupted file object"
		t.Info["workspace"] = ws
		t.Info["damage"] = how
		t.Info["victim_len"] = len(victim.Data)
		distinct[victim.Digest+how] = true
		ts := []*Transition{t}
		// a retry must not "succeed" on the bytes the failed attempt left behind
		t2, _ := p.do(Cmd{Kind: "checkout", Copy: true}, nil, want(5, 8, 13), nil, nil)
		t2.Info["step"] = "checkout --copy again after the failed attempt"
		t2.Info["workspace"] = ws
		t2.Info["damage"] = how
		ts = append(ts, t2)
		tag(ts, "corrupt", i, map[string]interface{}{"kind": c.kind})
		all = append(all, ts...)
		c.cleanup()
	}
	// pipelines: the corrupted object belongs to an UPSTREAM stage and only the downstream one is named
	npipe := 4
	if o.tier == "thorough" {
		npipe = 40
	}
	for i := 0; i < npipe; i++ {
		rr := r.fork()
		base := scenarioDir(o, "corruptp", i)
		p := newProject(o, base, []string{"in", "abs"}[rr.intn(2)])
		p.init()
		var pool [][]byte
		nested := rr.chance(1, 2)
		upOut, upFile := "a.bin", "a.bin"
		if nested {
			upOut, upFile = "adir", "adir/deep/a.bin"
			must(os.MkdirAll(filepath.Join(p.Root, "adir", "deep"), 0o755))
			must(os.WriteFile(filepath.Join(p.Root, "adir", "other.txt"), genContent(rr, &pool), 0o644))
		}
		victimData := append([]byte("upstream payload "), rr.bytes(20+rr.intn(60))...)
		must(os.WriteFile(filepath.Join(p.Root, upFile), victimData, 0o644))
		must(os.WriteFile(filepath.Join(p.Root, "b.bin"), append([]byte("downstream "), rr.bytes(10)...), 0o644))
		p.writeStage("a.yaml", &StageRec{Out: []Art{{Path: upOut, IsDir: nested}}})
		p.writeStage("b.yaml", &StageRec{Cmd: "true", In: []Art{{Path: upFile}}, Out: []Art{{Path: "b.bin"}}})
		if res := p.dud("", "stage", "add", "a.yaml", "b.yaml"); res.Exit != 0 {
			must(fmt.Errorf("corrupt pipeline setup: %s", res.Stderr))
		}
		cpc := rr.chance(1, 2)
		args := []string{"commit"}
		if cpc {
			args = append(args, "--copy")
		}
		if res := p.dud("", args...); res.Exit != 0 {
			must(fmt.Errorf("corrupt pipeline commit: %s", res.Stderr))
		}
		w := p.observe()
		for _, ob := range w.Cache {
			if string(ob.Data) == string(victimData) {
				op := cachePathOf(p.CacheDir, ob.Digest)
				must(os.Chmod(op, 0o644))
				bad := append([]byte{}, victimData...)
				bad[len(bad)/2] ^= 0x20
				must(os.WriteFile(op, bad, 0o644))
				must(os.Chmod(op, 0o444))
			}
		}
		if cpc || rr.chance(1, 2) {
			rmrf(filepath.Join(p.Root, upOut))
			rmrf(filepath.Join(p.Root, "b.bin"))
		}
		t, _ := p.do(Cmd{Kind: "checkout", Copy: true, Targets: []string{"b.yaml"}}, nil, want(5, 8, 13), nil, nil)
		t.Info["step"] = "checkout --copy of the downstream stage with a corrupted upstream object"
		t.Info["nested"] = nested
		tag([]*Transition{t}, "corrupt", 1000+i, map[string]interface{}{"kind": "pipeline"})
		all = append(all, t)
		distinct[fmt.Sprintf("pipe%d", i)] = true
		s.count("pipeline")
		rmrf(base)
	}
	// one stage, several outputs: the corrupted object belongs to a small output that is done long
	// before a wide sibling output of the same stage is
	nmulti := 3
	if o.tier == "thorough" {
		nmulti = 20
	}
	for i := 0; i < nmulti; i++ {
		rr := r.fork()
		base := scenarioDir(o, "corruptm", i)
		p := newProject(o, base, []string{"in", "abs"}[rr.intn(2)])
		p.init()
		victimData := append([]byte("small sibling "), rr.bytes(5+rr.intn(30))...)
		victimName := []string{"a_small.bin", "m_small.bin", "z_small.bin"}[i%3]
		must(os.WriteFile(filepath.Join(p.Root, victimName), victimData, 0o644))
		must(os.WriteFile(filepath.Join(p.Root, "k_other.bin"), append([]byte("healthy "), rr.bytes(300)...), 0o644))
		must(os.MkdirAll(filepath.Join(p.Root, "n_wide", "sub"), 0o755))
		for k := 0; k < 120; k++ {
			name := fmt.Sprintf("n_wide/w%03d", k)
			if k%4 == 0 {
				name = fmt.Sprintf("n_wide/sub/w%03d", k)
			}
			must(os.WriteFile(filepath.Join(p.Root, name), append([]byte(fmt.Sprintf("wide %d ", k)), rr.bytes(20)...), 0o644))
		}
		p.writeStage("m.yaml", &StageRec{Out: []Art{{Path: victimName}, {Path: "k_other.bin"}, {Path: "n_wide", IsDir: true}}})
		if res := p.dud("", "stage", "add", "m.yaml"); res.Exit != 0 {
			must(fmt.Errorf("corrupt multi setup: %s", res.Stderr))
		}
		args := []string{"commit"}
		if rr.chance(1, 2) {
			args = append(args, "--copy")
		}
		if res := p.dud("", args...); res.Exit != 0 {
			must(fmt.Errorf("corrupt multi commit: %s", res.Stderr))
		}
		for _, ob := range p.observe().Cache {
			if string(ob.Data) == string(victimData) {
				op := cachePathOf(p.CacheDir, ob.Digest)
				must(os.Chmod(op, 0o644))
				bad := append([]byte{}, victimData...)
				bad[len(bad)/2] ^= 0x20
				must(os.WriteFile(op, bad, 0o644))
				must(os.Chmod(op, 0o444))
			}
		}
		for _, x := range []string{victimName, "k_other.bin", "n_wide"} {
			rmrf(filepath.Join(p.Root, x))
		}
		t, _ := p.do(Cmd{Kind: "checkout", Copy: true}, nil, want(5, 8, 13), nil, nil)
		t.Info["step"] = "checkout --copy of a stage with three outputs, the smallest one's object corrupted"
		tag([]*Transition{t}, "corrupt", 2000+i, map[string]interface{}{"kind": "multi-output"})
		all = append(all, t)
		distinct[fmt.Sprintf("multi%d", i)] = true
		s.count("multi-output")
		rmrf(base)
	}
	s.Cases = len(all)
	s.Nontrivial = len(distinct)
	s.Rule = "stages with three outputs (small corrupted file, file, 120-entry directory); two-stage pipelines with the corrupted object upstream and only the downstream stage named; committed artifact x one reachable file object damaged (flip first/middle/last byte, truncate by 1 / to 0, append 1) then `dud checkout --copy` (twice) of the removed artifact or over the links the commit left; every case is non-trivial; distinct by (object, damage)"
	if len(all) > 0 {
		s.Samples = append(s.Samples, all[0].Info)
	}
	emitTransitions(o, "corrupt", all, s, 8)
	s.write(o.out)
	rmrf(filepath.Join(o.out, "w"))
}

// ---------------- C05 ----------------

// forceInPlace: the next edit is a change of a file's bytes, written in place when the file is regular
var forceInPlace bool

// forceKind: the next edit is of this kind (if it applies)
var forceKind string

// applyEdit performs one user edit inside the artifact at abs; returns a label or "" if not applicable.
func applyEdit(r *rng, p *Project, c *committed, abs string) string {
	// collect entries as they are on disk now
	cur := p.observe().Root
	for _, comp := range splitPath(c.artPath) {
		cur = cur.get(comp)
	}
	if cur == nil {
		return "" // the artifact is not there (an earlier command failed to produce it)
	}
	type ent struct {
		rel string
		n   *Node
	}
	var files, dirs []ent
	walkEntries(cur, "", func(rel string, n *Node) {
		if n.Kind == "d" {
			dirs = append(dirs, ent{rel, n})
		} else {
			files = append(files, ent{rel, n})
		}
	})
	content := func(e ent) []byte {
		if e.n.Kind == "f" {
			return e.n.Data
		}
		b, err := os.ReadFile(filepath.Join(abs, e.rel))
		if err != nil {
			return nil // a dangling link, a link to a directory: nothing to read
		}
		return b
	}
	rewrite := func(e ent, b []byte) {
		fp := filepath.Join(abs, e.rel)
		if fi, err := os.Lstat(fp); err == nil && fi.Mode().IsRegular() && (r.chance(1, 2) || forceInPlace) {
			// a regular file (a copy; whatever its mode - the harness runs as root) is edited IN PLACE, as `echo >> f` or an editor does:
			// the bytes are the user's own, nothing else may change with them
			must(os.WriteFile(fp, b, 0o644))
		} else {
			os.Remove(fp) // never write through a link into the cache
			must(os.WriteFile(fp, b, 0o644))
		}
		if r.chance(1, 3) {
			// timestamps as cp -p / tar / rsync -t leave them: older than anything dud wrote
			old := time.Date(2001, 2, 3, 4, 5, 6, 0, time.UTC)
			must(os.Chtimes(fp, old, old))
		}
	}
	kind := []string{"flip", "truncate", "append", "add-file", "add-dir", "delete", "rename", "retarget", "dangle", "file-to-dir", "dir-to-file", "link-to-copy", "none", "edit-below-norec", "append-nul", "truncate-nul", "drop-object", "drop-object", "retarget", "retarget", "file-to-dir", "dir-to-file", "dir-to-file", "delete-subdir", "root-to-file", "delete-root", "subdir-to-outside-link", "subdir-to-outside-link", "subdir-to-outside-link"}[r.intn(29)]
	if forceInPlace {
		kind = []string{"append", "flip", "truncate"}[r.intn(3)]
	}
	if forceKind != "" {
		kind = forceKind
	}
	switch kind {
	case "flip", "truncate", "append", "delete", "rename", "retarget", "dangle", "file-to-dir", "link-to-copy", "append-nul", "truncate-nul", "drop-object":
		if len(files) == 0 {
			return ""
		}
		e := files[r.intn(len(files))]
		b := append([]byte{}, content(e)...)
		fp := filepath.Join(abs, e.rel)
		switch kind {
		case "flip":
			if len(b) == 0 {
				return ""
			}
			b[[]int{0, len(b) / 2, len(b) - 1}[r.intn(3)]] ^= 1
			rewrite(e, b)
		case "truncate":
			if len(b) == 0 {
				return ""
			}
			rewrite(e, b[:len(b)-1])
		case "append":
			rewrite(e, append(b, '!'))
		case "append-nul":
			rewrite(e, append(b, 0, 0, 0))
		case "truncate-nul":
			if len(b) == 0 || b[len(b)-1] != 0 {
				return ""
			}
			rewrite(e, b[:len(b)-1])
		case "drop-object":
			// the workspace stays as it is; the committed bytes vanish from the cache
			dropped := false
			for _, ob := range c.w.Cache {
				if string(ob.Data) == string(b) {
					if os.Remove(cachePathOf(p.CacheDir, ob.Digest)) == nil {
						dropped = true
					}
				}
			}
			if !dropped {
				return ""
			}
		case "delete":
			must(os.Remove(fp))
		case "rename":
			must(os.Rename(fp, fp+".renamed"))
		case "retarget":
			if e.n.Kind != "lc" || len(c.w.Cache) < 2 {
				return ""
			}
			var other string
			for _, ob := range c.w.Cache {
				if ob.Digest != string(e.n.Data) {
					other = ob.Digest
				}
			}
			must(os.Remove(fp))
			materialize(fp, &Node{Kind: "lc", Data: []byte(other)}, p.CacheDir)
		case "dangle":
			must(os.Remove(fp))
			must(os.Symlink("nowhere-at-all", fp))
		case "file-to-dir":
			must(os.Remove(fp))
			must(os.MkdirAll(fp, 0o755))
			must(os.WriteFile(filepath.Join(fp, "inner"), b, 0o644))
		case "link-to-copy":
			if e.n.Kind != "lc" {
				return ""
			}
			rewrite(e, b) // identical bytes as a regular file: content-preserving
		}
	case "add-file":
		if cur.Kind != "d" {
			return ""
		}
		d := dirs[r.intn(len(dirs))]
		for _, x := range dirs {
			if len(x.n.Ents) == 0 && r.chance(2, 3) {
				d = x // a directory that was EMPTY when it was committed
				kind = "add-file-to-empty-dir"
			}
		}
		must(os.WriteFile(filepath.Join(abs, d.rel, "zz_new_file"), []byte("new"), 0o644))
	case "add-dir":
		if cur.Kind != "d" {
			return ""
		}
		d := dirs[r.intn(len(dirs))]
		must(os.MkdirAll(filepath.Join(abs, d.rel, "zz_new_dir"), 0o755))
		if c.kind == "norec" {
			kind = "add-dir-below-norec"
		}
	case "dir-to-file":
		if len(dirs) < 2 {
			return ""
		}
		d := dirs[1+r.intn(len(dirs)-1)]
		rmrf(filepath.Join(abs, d.rel))
		must(os.WriteFile(filepath.Join(abs, d.rel), []byte("was a dir"), 0o644))
	case "delete-subdir":
		if len(dirs) < 2 {
			return ""
		}
		rmrf(filepath.Join(abs, dirs[1+r.intn(len(dirs)-1)].rel))
	case "subdir-to-outside-link":
		// a committed sub-directory is replaced by a link to a directory of plain files kept elsewhere
		// in the project: not something to version (commit refuses), and those files stay what they are
		if len(dirs) < 2 {
			return ""
		}
		d := dirs[1+r.intn(len(dirs)-1)]
		raw := filepath.Join(p.Root, "raw_inputs")
		must(os.MkdirAll(raw, 0o755))
		for _, f := range []string{"in1.txt", "in2.txt"} {
			os.Remove(filepath.Join(raw, f)) // (whatever an earlier command made of it)
			must(os.WriteFile(filepath.Join(raw, f), []byte("plain input "+f), 0o644))
		}
		rmrf(filepath.Join(abs, d.rel))
		must(os.Symlink(raw, filepath.Join(abs, d.rel)))
	case "root-to-file":
		// the whole directory artifact is replaced by a regular file
		if cur.Kind != "d" {
			return ""
		}
		rmrf(abs)
		must(os.WriteFile(abs, []byte("was the whole directory"), 0o644))
	case "delete-root":
		// the whole artifact is gone
		rmrf(abs)
	case "edit-below-norec":
		if c.kind != "norec" || len(dirs) < 2 {
			return ""
		}
		d := dirs[1+r.intn(len(dirs)-1)]
		must(os.WriteFile(filepath.Join(abs, d.rel, "zz_ignored"), []byte("ignored"), 0o644))
	case "none":
	}
	return kind
}

func runEdits(o *opts) {
	r := newRng(o.seed)
	s := newSummary("edits", o.seed, o.tier)
	n := 60
	if o.tier == "thorough" {
		n = 800
	}
	if o.n > 0 {
		n = o.n
	}
	var all []*Transition
	distinct := map[string]bool{}
	for i := 0; i < n; i++ {
		rr := r.fork()
		c := setupCommitted(o, rr, s, "edits", i, []string{"file", "dir", "dir", "norec", "skipfile", "inputfile"}, treeOpts{maxDepth: 2, maxFan: 4, hostile: rr.chance(1, 3), allowEmptyDir: true})
		if !c.ts[0].OK {
			c.cleanup()
			continue
		}
		p := c.p
		abs := filepath.Join(p.Root, c.artPath)
		ek := applyEdit(rr, p, c, abs)
		if ek == "" {
			ek = "none"
		}
		s.count("edit:" + ek)
		ssp := want(6, 2)
		if ek == "edit-below-norec" || ek == "add-dir-below-norec" {
			// nothing below a sub-directory of a non-recursive artifact is tracked: still up to date
			ssp = want(6, 2, 15)
		}
		t, _ := p.do(Cmd{Kind: "status"}, nil, ssp, nil, nil)
		t.Info["step"] = "status after edit"
		t.Info["edit"] = ek
		// the human rendering of the same state
		txt := p.dud("", "status")
		t.Info["human"] = lastLines(txt.Stdout, 6)
		t.Text = parseHumanStatus(txt.Stdout)
		t.Specs = append(t.Specs, want(26)...)
		// an empty directory is rendered "1x empty directory" whether or not it is up-to-date
		if n := t.Pre.Root; n != nil {
			cur := n
			for _, comp := range splitPath(c.artPath) {
				if cur != nil {
					cur = cur.get(comp)
				}
			}
			if (cur != nil && cur.Kind == "d" && len(cur.Ents) == 0) || ek == "add-dir" {
				t.Info["empty_directory_without_manifest"] = true
			}
		}
		if ek != "none" {
			distinct[fmt.Sprintf("%s|%s", ek, t.Pre.Root.coq())] = true
		}
		ts := []*Transition{c.ts[0], t} // the commit itself is compared with the model too
		tag(ts, "edits", i, map[string]interface{}{"kind": c.kind})
		all = append(all, ts...)
		c.cleanup()
	}
	s.Cases = len(all)
	s.Nontrivial = len(distinct)
	s.Rule = "committed artifact x one user edit (byte flip at first/middle/last offset, truncate, append, add file/dir, delete, rename, retarget/dangle a link, file<->dir swap, link replaced by identical copy, edit below a non-recursive directory, none) then `dud status --debug`; non-trivial = an edit was applied; distinct by (edit, resulting workspace)"
	if len(all) > 0 {
		s.Samples = append(s.Samples, all[0].Info, all[len(all)/2].Info)
	}
	emitTransitions(o, "edits", all, s, 8)
	s.write(o.out)
	rmrf(filepath.Join(o.out, "w"))
}

func lastLines(s string, n int) string {
	lines := []string{}
	cur := ""
	for _, ch := range s {
		if ch == '\n' {
			lines = append(lines, cur)
			cur = ""
		} else {
			cur += string(ch)
		}
	}
	if cur != "" {
		lines = append(lines, cur)
	}
	if len(lines) > n {
		lines = lines[len(lines)-n:]
	}
	out := ""
	for _, l := range lines {
		out += l + "\n"
	}
	return out
}

// ---------------- C16 ----------------

func runHist(o *opts) {
	fileModes = true
	r := newRng(o.seed)
	s := newSummary("hist", o.seed, o.tier)
	n := 30
	if o.tier == "thorough" {
		n = 300
	}
	if o.n > 0 {
		n = o.n
	}
	var all []*Transition
	distinct := map[string]bool{}
	for i := 0; i < n; i++ {
		rr := r.fork()
		c := setupCommitted(o, rr, s, "hist", i, []string{"dir", "dir", "norec", "file"}, treeOpts{maxDepth: 2, maxFan: 4, hostile: rr.chance(1, 3), allowEmptyDir: true, cacheNames: true, ensureSubdir: i%6 == 1})
		c.ts[0].Specs = want(11, 7, 1)
		all = append(all, c.ts[0])
		if !c.ts[0].OK {
			c.cleanup()
			continue
		}
		p := c.p
		abs := filepath.Join(p.Root, c.artPath)
		steps := 1 + rr.intn(3)
		w := c.w
		lastOK := false
		if rr.chance(1, 3) {
			// the user wants plain, editable files: copies instead of links
			t, w2 := p.do(Cmd{Kind: "checkout", Copy: true}, nil, want(11, 1, 12, 14), nil, nil)
			t.Info["step"] = "checkout --copy before the edits"
			all = append(all, t)
			s.count("checkout-copy-before-edits")
			if t.OK {
				w = w2
				c.w = w
				forceInPlace = true // ... and then edits one of them where it is
			}
		}
		for k := 0; k < steps; k++ {
			lastOK = false
			if k == 0 && i%6 == 1 && c.kind == "dir" && !forceInPlace {
				forceKind = "subdir-to-outside-link"
			}
			ek := applyEdit(rr, p, c, abs)
			forceInPlace = false
			forceKind = ""
			if ek == "" || ek == "dangle" || ek == "drop-object" {
				// dangling links (also: links whose object was dropped from the cache) cannot be
				// committed (by design); skip those edits. A link re-pointed at ANOTHER object of the
				// cache (two committed files swapped, `cp -P`) is committed: that object's checksum
				// is recorded
				if ek != "" {
					// undo is not possible in general: stop this history
					break
				}
				continue
			}
			s.count("edit:" + ek)
			sp := want(11, 7, 1, 14, 12)
			if (c.kind == "file" && (ek == "delete" || ek == "rename" || ek == "file-to-dir")) || ek == "root-to-file" || ek == "delete-root" {
				sp = want(5, 1, 12) // the output itself vanished / changed kind: commit must refuse
			}
			if ek == "subdir-to-outside-link" {
				sp = want(5, 1, 12, 14) // a link to a live directory: refused, and what the files say stays
				if c.kind == "norec" {
					sp = want(1, 12, 14) // (a non-recursive artifact does not track sub-directories)
				}
			}
			t, w2 := p.do(Cmd{Kind: "commit", Copy: rr.chance(1, 2)}, nil, sp, nil, nil)
			t.Info["step"] = fmt.Sprintf("recommit after %s", ek)
			t.Info["edit"] = ek
			all = append(all, t)
			if !t.OK {
				break
			}
			w = w2
			distinct[fmt.Sprintf("%d|%s", k, w.Root.coq())] = true
			c.w = w
			lastOK = true
		}
		if lastOK && rr.chance(2, 3) {
			// the artifact is lost; checkout (either strategy) must bring back what the last commit saw
			ref := logicalRoot(w)
			rmrf(abs)
			t, _ := p.do(Cmd{Kind: "checkout", Copy: rr.chance(1, 2)}, nil, want(11, 3), ref, nil)
			t.Info["step"] = "checkout of the lost artifact after the history"
			all = append(all, t)
			s.count("final-checkout")
		}
		tag(all[len(all)-1:], "hist", i, map[string]interface{}{"kind": c.kind})
		c.cleanup()
	}
	s.Cases = len(all)
	s.Nontrivial = len(distinct)
	s.Rule = "edit histories (add, delete, modify, rename, file<->dir swap, link->copy) with a recommit (random strategy) after each edit, over old manifests; each recorded checksum must equal the Merkle function of path and logical content computed in Coq; non-trivial = a recommit over an old manifest; distinct by resulting workspace"
	if len(all) > 0 {
		s.Samples = append(s.Samples, all[0].Info, all[len(all)/2].Info)
	}
	emitTransitions(o, "hist", all, s, 6)
	s.write(o.out)
	rmrf(filepath.Join(o.out, "w"))
}
