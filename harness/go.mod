module dudh

go 1.20

require github.com/kevin-hanselman/dud v0.0.0

require (
	github.com/c2h5oh/datasize v0.0.0-20231215233829-aa82cc1e6500 // indirect
	github.com/klauspost/cpuid/v2 v2.2.8 // indirect
	github.com/pkg/errors v0.9.1 // indirect
	github.com/zeebo/blake3 v0.2.4 // indirect
	gopkg.in/yaml.v2 v2.4.0 // indirect
)

replace github.com/kevin-hanselman/dud => /repo
