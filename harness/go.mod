module dudh

go 1.20

require (
	github.com/kevin-hanselman/dud v0.0.0
	github.com/zeebo/blake3 v0.2.4
)

require (
	github.com/VividCortex/ewma v1.2.0 // indirect
	github.com/awalterschulze/gographviz v2.0.3+incompatible // indirect
	github.com/c2h5oh/datasize v0.0.0-20231215233829-aa82cc1e6500 // indirect
	github.com/cheggaaa/pb/v3 v3.1.5 // indirect
	github.com/fatih/color v1.17.0 // indirect
	github.com/klauspost/cpuid/v2 v2.2.8 // indirect
	github.com/mattn/go-colorable v0.1.13 // indirect
	github.com/mattn/go-isatty v0.0.20 // indirect
	github.com/mattn/go-runewidth v0.0.15 // indirect
	github.com/pkg/errors v0.9.1 // indirect
	github.com/rivo/uniseg v0.4.7 // indirect
	golang.org/x/sync v0.8.0 // indirect
	golang.org/x/sys v0.21.0 // indirect
	gopkg.in/yaml.v2 v2.4.0 // indirect
)

replace github.com/kevin-hanselman/dud => /repo
