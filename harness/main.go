package main

import (
	"flag"
	"fmt"
	"os"
	"strconv"
	"strings"
)

type opts struct {
	seed uint64
	tier string
	out  string
	dud  string
	repo string
	shm  string
	n    int
}

var families = map[string]func(o *opts){}

func main() {
	if len(os.Args) < 2 {
		fmt.Fprintln(os.Stderr, "usage: dudh <family> [flags]")
		os.Exit(2)
	}
	fam := os.Args[1]
	fs := flag.NewFlagSet(fam, flag.ExitOnError)
	o := &opts{}
	fs.Uint64Var(&o.seed, "seed", 1, "seed")
	fs.StringVar(&o.tier, "tier", "quick", "quick|thorough")
	fs.StringVar(&o.out, "out", "", "output directory")
	fs.StringVar(&o.dud, "dud", "", "path of the freshly built dud binary")
	fs.StringVar(&o.repo, "repo", "/repo", "repository")
	fs.StringVar(&o.shm, "shm", "", "scratch directory on another filesystem")
	fs.IntVar(&o.n, "n", 0, "override case count")
	specs := fs.String("specs", "", "comma separated spec ids to attach (default all)")
	fs.Parse(os.Args[2:])
	if *specs != "" {
		specFilter = map[int]bool{}
		for _, x := range strings.Split(*specs, ",") {
			v, _ := strconv.Atoi(x)
			specFilter[v] = true
		}
	}
	f, ok := families[fam]
	if !ok {
		fmt.Fprintln(os.Stderr, "unknown family", fam)
		os.Exit(2)
	}
	must(os.MkdirAll(o.out, 0o755))
	f(o)
}
