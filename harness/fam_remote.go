package main

// Family "remote" (C11): push to / fetch from a local-directory remote through the rclone
// stand-in, with arbitrary subsets of objects already present on either side, then checkout.

import (
	"fmt"
	"os"
	"path/filepath"
	"strings"
)

func init() { families["remote"] = runRemote }

func cacheCoq(objs []CObj) string {
	p := make([]string, len(objs))
	for i, o := range objs {
		p[i] = fmt.Sprintf("(%s, mkObj (%s) %d)", cxs(o.Digest), cx(o.Data), o.Mode)
	}
	return clist(p)
}

type rcase struct {
	id      int
	w       *World
	remote  []CObj
	push    bool
	targets []string
	single  bool
	ok      bool
	postC   []CObj
	postR   []CObj
	specs   []int
	info    map[string]interface{}
}

func (c *rcase) coq() string {
	ts := make([]string, len(c.targets))
	for i, t := range c.targets {
		ts[i] = cxs(t)
	}
	sp := make([]string, len(c.specs))
	for i, s := range c.specs {
		sp[i] = fmt.Sprint(s)
	}
	return fmt.Sprintf("mkR %d\n (%s)\n %s %s %s %s %s\n %s\n %s %s", c.id, c.w.coq(), cacheCoq(c.remote), cbool(c.push), clist(ts), cbool(c.single), cbool(c.ok), cacheCoq(c.postC), cacheCoq(c.postR), clist(sp))
}

func runRemote(o *opts) {
	r := newRng(o.seed)
	s := newSummary("remote", o.seed, o.tier)
	n := 24
	if o.tier == "thorough" {
		n = 250
	}
	if o.n > 0 {
		n = o.n
	}
	var rcases []*rcase
	var ts []*Transition
	distinct := map[string]bool{}
	for i := 0; i < n; i++ {
		rr := r.fork()
		base := scenarioDir(o, "remote", i)
		p := newProject(o, base, []string{"in", "abs"}[rr.intn(2)])
		p.init()
		remote := filepath.Join(base, "remote")
		must(os.MkdirAll(remote, 0o755))
		cfg := filepath.Join(p.Root, ".dud", "config.yaml")
		f, err := os.OpenFile(cfg, os.O_APPEND|os.O_WRONLY, 0o644)
		must(err)
		fmt.Fprintf(f, "remote: %s\n", remote)
		f.Close()
		// 1-3 stages; the second consumes the first's output (recursion matters), the third is independent
		var pool [][]byte
		nst := 1 + rr.intn(3)
		var stages []string
		hasWide := false
		mk := func(name, art string, isDir bool, ins []Art) {
			abs := filepath.Join(p.Root, art)
			if isDir {
				t := genTree(rr, 0, treeOpts{maxDepth: 2, maxFan: 4, allowEmptyDir: true}, &pool, nil)
				// identical names in different directories, duplicate contents
				t.set("same", nDir(Ent{"x", nFile([]byte("dup"))}))
				t.set("same2", nDir(Ent{"x", nFile([]byte("dup"))}))
				if rr.chance(1, 5) {
					// more objects at one level than any worker pool, and not a multiple of its size
					wide := &Node{Kind: "d"}
					nw := 65 + rr.intn(80)
					for k := 0; k < nw; k++ {
						wide.Ents = append(wide.Ents, Ent{fmt.Sprintf("w%03d", k), nFile([]byte(fmt.Sprintf("wide %d %d", i, k)))})
					}
					t.set("wide", wide)
					hasWide = true
					s.count("wide-directory")
				}
				materialize(abs, t, p.CacheDir)
			} else {
				must(os.WriteFile(abs, genContent(rr, &pool), 0o644))
			}
			outs := []Art{{Path: art, IsDir: isDir}}
			if rr.chance(1, 3) {
				// a skip-cache output beside the cached one (a metrics file kept in git): nothing of it
				// travels, and it must not end the transfer of its siblings
				m := art + "_metrics.txt"
				must(os.WriteFile(filepath.Join(p.Root, m), []byte("metrics of "+art), 0o644))
				outs = append([]Art{{Path: m, Skip: true}}, outs...)
				s.count("stage-with-skip-cache-and-cached-outputs")
			}
			p.writeStage(name, &StageRec{In: ins, Out: outs})
			stages = append(stages, name)
		}
		mk("a.yaml", "A", rr.chance(2, 3), nil)
		if nst >= 2 {
			mk("b.yaml", "B", rr.chance(1, 2), []Art{{Path: "A"}})
		}
		if nst >= 3 {
			mk("c.yaml", "C", rr.chance(1, 2), nil)
		}
		if rr.chance(1, 2) {
			// a sink: a stage that only consumes (a report, an upload), no outputs of its own. Naming it
			// as the target still transfers everything upstream of it.
			last := []string{"A", "B", "C"}[nst-1]
			if nst == 3 {
				last = "B"
			}
			p.writeStage("report.yaml", &StageRec{Cmd: "true", In: []Art{{Path: last}}})
			stages = append(stages, "report.yaml")
			s.count("sink-stage-without-outputs")
		}
		if res := p.dud("", append([]string{"stage", "add"}, stages...)...); res.Exit != 0 {
			must(fmt.Errorf("remote setup: %s", res.Stderr))
		}
		plainRoot := p.observe().Root.clone()
		if res := p.dud("", "commit"); res.Exit != 0 {
			must(fmt.Errorf("remote commit: %s", res.Stderr))
		}
		ref := p.observe()
		// files whose bytes are exactly the manifest of a sibling directory (the file and the
		// directory then share one cache object): added after the first commit, then recommitted
		if fi, err := os.Stat(filepath.Join(p.Root, "A")); err == nil && fi.IsDir() && rr.chance(1, 2) {
			k := 0
			for _, ob := range ref.Cache {
				if strings.HasPrefix(string(ob.Data), `{"path":"same`) {
					for j := 0; j < 3; j++ {
						must(os.WriteFile(filepath.Join(p.Root, "A", fmt.Sprintf("copy%d_%d.json", k, j)), ob.Data, 0o644))
					}
					k++
				}
			}
			if k > 0 {
				// back to plain files so that the reference tree has no links
				if res := p.dud("", "checkout", "--copy"); res.Exit != 0 {
					must(fmt.Errorf("remote checkout --copy: %s", res.Stderr))
				}
				plainRoot = p.observe().Root.clone()
				if res := p.dud("", "commit"); res.Exit != 0 {
					must(fmt.Errorf("remote recommit: %s", res.Stderr))
				}
				ref = p.observe()
				s.count("file-equal-to-a-sibling-directory-manifest")
			}
		}
		// the cache as an older dud left it: the directory manifests of the outputs in the old schema
		// (push and fetch walk them like current ones)
		if rr.chance(1, 3) {
			nOld := 0
			for _, sf := range stages {
				rec := loadStage(filepath.Join(p.Root, sf))
				if rec == nil {
					continue
				}
				changed := false
				for k := range rec.Out {
					if rec.Out[k].IsDir && !rec.Out[k].Skip && rec.Out[k].Cs != "" {
						superseded, rewrittenNew = nil, map[string]bool{}
						rec.Out[k].Cs = rewriteManifest(p.CacheDir, rec.Out[k].Cs, "", func(string) bool { return true }, &nOld)
						// (the current-format twins stay: another stage may share a sub-tree)
						changed = true
					}
				}
				if changed {
					p.writeStage(sf, rec)
				}
			}
			if nOld > 0 {
				s.count("old-schema-manifests")
				ref = p.observe()
			}
		}
		// the stage file says `disable-recursion` by now, the committed manifest is a recursive one: what
		// travels is what the MANIFEST reaches
		if rr.chance(1, 4) {
			for _, sf := range stages {
				rec := loadStage(filepath.Join(p.Root, sf))
				if rec == nil {
					continue
				}
				for k := range rec.Out {
					if rec.Out[k].IsDir && !rec.Out[k].NoRec {
						rec.Out[k].NoRec = true
						p.writeStage(sf, rec)
						s.count("flag-disable-recursion-added-after-commit")
						break
					}
				}
			}
			ref = p.observe()
		}
		s.count(fmt.Sprintf("stages:%d", nst))
		// some objects are already on the remote
		if rr.chance(1, 2) {
			for _, ob := range ref.Cache {
				if rr.chance(1, 3) {
					dst := cachePathOf(remote, ob.Digest)
					must(os.MkdirAll(filepath.Dir(dst), 0o755))
					must(os.WriteFile(dst, ob.Data, 0o444))
				}
			}
			s.count("remote:partially-populated")
		}
		var targets []string
		single := false
		if rr.chance(1, 2) {
			targets = []string{stages[rr.intn(len(stages))]}
			single = rr.chance(1, 2)
		}
		// optionally make a reachable object vanish locally before the push: push must fail
		vanish := rr.chance(1, 5)
		if vanish && len(ref.Cache) > 0 {
			ob := ref.Cache[rr.intn(len(ref.Cache))]
			os.Remove(cachePathOf(p.CacheDir, ob.Digest))
			s.count("push:object-missing-locally")
		}
		do := func(push bool, specs []int, step string) *rcase {
			w := p.observe()
			rem, _ := snapCache(remote)
			c := Cmd{Kind: "fetch", Targets: targets, Single: single}
			if push {
				c.Kind = "push"
			}
			res := p.dud("", c.argv()...)
			postC, _ := snapCache(p.CacheDir)
			postR, _ := snapCache(remote)
			rc := &rcase{w: w, remote: rem, push: push, targets: targets, single: single, ok: res.Exit == 0, postC: postC, postR: postR, specs: specs,
				info: map[string]interface{}{"scenario": i, "step": step, "cmd": "dud " + strings.Join(c.argv(), " "), "exit": res.Exit, "stages": nst, "local_objects": len(w.Cache), "remote_objects": len(rem)}}
			if res.Exit != 0 {
				rc.info["stderr"] = lastLines(res.Stderr, 2)
			}
			rcases = append(rcases, rc)
			return rc
		}
		sp := want(30, 31, 33, 35)
		if !vanish {
			sp = append(sp, want(34)...)
		}
		pc := do(true, sp, "push")
		distinct[fmt.Sprintf("%d|%v|%v|%d", nst, targets, single, len(ref.Cache))] = true
		if !pc.ok {
			rmrf(base)
			continue
		}
		// wipe an arbitrary subset of the local cache, then fetch
		wipe := rr.intn(3) // 0 all, 1 random half, 2 none
		if hasWide {
			wipe = 0
		}
		for _, ob := range ref.Cache {
			if wipe == 0 || (wipe == 1 && rr.chance(1, 2)) {
				os.Remove(cachePathOf(p.CacheDir, ob.Digest))
			}
		}
		s.count(fmt.Sprintf("wipe:%d", wipe))
		if wipe != 2 && rr.chance(1, 3) {
			// an object is missing on the remote: the fetch fails part-way, the cause is repaired, the
			// fetch is repeated; nothing that arrived in between may stay writable
			rem, _ := snapCache(remote)
			var missingLocally []CObj
			now, _ := snapCache(p.CacheDir)
			have := map[string]bool{}
			for _, ob := range now {
				have[ob.Digest] = true
			}
			for _, ob := range rem {
				if !have[ob.Digest] && !strings.HasPrefix(string(ob.Data), "{\"path\"") {
					missingLocally = append(missingLocally, ob)
				}
			}
			if len(missingLocally) >= 2 {
				v := missingLocally[rr.intn(len(missingLocally))]
				vp := cachePathOf(remote, v.Digest)
				must(os.Rename(vp, vp+".aside"))
				fsp := want(33, 36)
				if len(targets) == 0 {
					// every stage is fetched, so the object set aside is needed: the fetch must fail
					// (with targets it may lie outside what was asked for)
					fsp = want(33, 36, 37)
				}
				do(false, fsp, "fetch with an object missing on the remote")
				must(os.Rename(vp+".aside", vp))
				s.count("fetch:failed-part-way-then-retried")
			}
		}
		fc := do(false, want(32, 33, 34, 35, 36), "fetch")
		if !fc.ok {
			rmrf(base)
			continue
		}
		// remove the fetched stages' artifacts and check out
		for _, st := range ref.Stages {
			if st.Rec != nil {
				for _, a := range st.Rec.Out {
					rmrf(filepath.Join(p.Root, a.Path))
				}
			}
		}
		t, _ := p.do(Cmd{Kind: "checkout", Targets: targets, Single: single, Copy: rr.chance(1, 2)}, nil, want(11, 3), plainRoot, nil)
		t.Info["scenario"] = i
		t.Info["step"] = "checkout after fetch"
		ts = append(ts, t)
		rmrf(base)
	}
	terms := make([]string, len(rcases))
	for i, c := range rcases {
		c.id = i + 1
		terms[i] = c.coq()
		c.info["specs"] = c.specs
		s.CaseIndex[fmt.Sprint(c.id)] = c.info
	}
	s.Cases = len(rcases) + len(ts)
	s.Nontrivial = len(distinct)
	s.Rule = "projects of 1-3 stages (directory outputs with nesting, identical names in different directories, duplicate contents; stage b consumes a's output) committed, remote partially pre-populated or empty, push [target] [-s] (optionally with a reachable object deleted locally first), arbitrary subset of the local cache wiped, fetch, artifacts removed, checkout; non-trivial = every scenario; distinct by (stages, targets, flags, object count)"
	if len(rcases) > 0 {
		s.Samples = append(s.Samples, rcases[0].info, rcases[len(rcases)/2].info)
	}
	imp := "From DudV Require Import Base.Bytes Model.Fs Model.Cache Model.Stage Model.Index Model.System Model.Remote Corr.RunSys Corr.RunRemote."
	writeShards(o.out, "remote", imp, "rcase", "run_remote", terms, 6, s)
	// checkout transitions use ids after the remote cases
	for k, t := range ts {
		t.ID = len(rcases) + k + 1
	}
	tterms := make([]string, len(ts))
	for k, t := range ts {
		id := t.ID
		tterms[k] = t.coq()
		t.Info["specs"] = t.Specs
		t.Info["ok"] = t.OK
		s.CaseIndex[fmt.Sprint(id)] = t.Info
	}
	writeShards(o.out, "remoteco", sysImports, "tcase", "run_sys", tterms, 6, s)
	s.write(o.out)
	rmrf(filepath.Join(o.out, "w"))
}
