package main

import (
	"encoding/hex"
	"encoding/json"
	"fmt"
	"os"
	"sort"
	"strings"
)

// splitmix64: every random choice of the harness derives from one state.
type rng struct{ s uint64 }

// newRng: the state is a non-linear function of the seed (with a linear one, the stream of seed
// n+1 is the stream of seed n shifted by one draw, and two seeds explore nearly the same scenarios)
func newRng(seed uint64) *rng {
	z := seed*0x9E3779B97F4A7C15 + 0x1234567
	z = (z ^ (z >> 30)) * 0xBF58476D1CE4E5B9
	z = (z ^ (z >> 27)) * 0x94D049BB133111EB
	return &rng{s: z ^ (z >> 31)}
}
func (r *rng) next() uint64 {
	r.s += 0x9E3779B97F4A7C15
	z := r.s
	z = (z ^ (z >> 30)) * 0xBF58476D1CE4E5B9
	z = (z ^ (z >> 27)) * 0x94D049BB133111EB
	return z ^ (z >> 31)
}
func (r *rng) intn(n int) int {
	if n <= 0 {
		return 0
	}
	return int(r.next() % uint64(n))
}
func (r *rng) chance(num, den int) bool { return r.intn(den) < num }
func (r *rng) bytes(n int) []byte {
	b := make([]byte, n)
	for i := 0; i < n; i += 8 {
		v := r.next()
		for j := 0; j < 8 && i+j < n; j++ {
			b[i+j] = byte(v >> (8 * j))
		}
	}
	return b
}
func (r *rng) fork() *rng { return &rng{s: r.next()} }

// Coq term helpers. Byte strings are always written as x "<hex>".
func cx(b []byte) string {
	h := hex.EncodeToString(b)
	if len(h) <= 4000 {
		return `x "` + h + `"`
	}
	// very long string literals overflow coqc's stack: split
	var parts []string
	for i := 0; i < len(h); i += 4000 {
		j := i + 4000
		if j > len(h) {
			j = len(h)
		}
		parts = append(parts, `x "`+h[i:j]+`"`)
	}
	return "(" + strings.Join(parts, " ++ ") + ")%list"
}
func cxs(s string) string { return cx([]byte(s)) }
func cbool(b bool) string {
	if b {
		return "true"
	}
	return "false"
}
func clist(items []string) string {
	return "[" + strings.Join(items, "; ") + "]"
}
func copt(ok bool, v string) string {
	if ok {
		return "Some (" + v + ")"
	}
	return "None"
}

type summary struct {
	Family       string                 `json:"family"`
	Seed         uint64                 `json:"seed"`
	Tier         string                 `json:"tier"`
	Cases        int                    `json:"cases"`
	Nontrivial   int                    `json:"distinct_nontrivial"`
	Rule         string                 `json:"rule"`
	Distribution map[string]int         `json:"distribution"`
	Samples      []interface{}          `json:"samples"`
	Shards       []string               `json:"shards"`
	CaseIndex    map[string]interface{} `json:"case_index"`
	Extra        map[string]interface{} `json:"extra,omitempty"`
	ImplFailures []interface{}          `json:"impl_failures,omitempty"`
}

func newSummary(fam string, seed uint64, tier string) *summary {
	return &summary{Family: fam, Seed: seed, Tier: tier, Distribution: map[string]int{},
		CaseIndex: map[string]interface{}{}, Extra: map[string]interface{}{}}
}
func (s *summary) count(k string) { s.Distribution[k]++ }
func (s *summary) write(dir string) {
	b, _ := json.MarshalIndent(s, "", " ")
	must(os.WriteFile(dir+"/summary.json", b, 0o644))
}

func must(err error) {
	if err != nil {
		fmt.Fprintln(os.Stderr, "harness error:", err)
		os.Exit(2)
	}
}

func sortedKeys[V any](m map[string]V) []string {
	ks := make([]string, 0, len(m))
	for k := range m {
		ks = append(ks, k)
	}
	sort.Strings(ks)
	return ks
}

// writeShards splits Coq case terms into files cases_<fam>_<n>.v.
func writeShards(dir, fam, imports, typ, runner string, cases []string, per int, s *summary) {
	n := 0
	for i := 0; i < len(cases); i += per {
		j := i + per
		if j > len(cases) {
			j = len(cases)
		}
		name := fmt.Sprintf("cases_%s_%d", fam, n)
		var sb strings.Builder
		sb.WriteString("From Coq Require Import NArith List String.\n")
		sb.WriteString(imports + "\n")
		sb.WriteString("Import ListNotations.\nLocal Open Scope string_scope.\nLocal Open Scope N_scope.\n")
		sb.WriteString("Definition cases : list " + typ + " := [\n")
		sb.WriteString(strings.Join(cases[i:j], ";\n"))
		sb.WriteString("\n].\n")
		sb.WriteString("Definition M := Eval vm_compute in " + runner + " cases.\nPrint M.\n")
		must(os.WriteFile(dir+"/"+name+".v", []byte(sb.String()), 0o644))
		s.Shards = append(s.Shards, name)
		n++
	}
}
