package main

// Family "pool" (C13): directory commit / status / checkout through the real binary under
// unusual worker-pool sizes (verif hook env), GOMAXPROCS values and tree shapes (deep chains
// beyond the pool, wide directories beyond it), with a failing entry at varying positions.
// The model is sequential, so correspondence = "same result as one entry at a time".

import (
	"fmt"
	"os"
	"path/filepath"
	"strings"
	"time"
)

func init() { families["pool"] = runPool }

func chainTree(depth int, r *rng) *Node {
	n := nDir(Ent{"leaf.txt", nFile([]byte(fmt.Sprintf("bottom-%d", r.intn(100))))})
	for d := 0; d < depth; d++ {
		n = nDir(Ent{"f.txt", nFile([]byte(fmt.Sprintf("level-%d", d%7)))}, Ent{"sub", n})
	}
	return n
}

func wideTree(width int, r *rng) *Node {
	n := &Node{Kind: "d"}
	for i := 0; i < width; i++ {
		if i%25 == 7 {
			n.Ents = append(n.Ents, Ent{fmt.Sprintf("d%03d", i), nDir(Ent{"x", nFile([]byte(fmt.Sprintf("x%d", i%3)))}, Ent{"y", nFile(nil)})})
		} else {
			n.Ents = append(n.Ents, Ent{fmt.Sprintf("f%03d", i), nFile([]byte(fmt.Sprintf("content-%d", i%11)))})
		}
	}
	n.sortEnts()
	return n
}

func runPool(o *opts) {
	r := newRng(o.seed)
	s := newSummary("pool", o.seed, o.tier)
	shared := []int{0, 1, 2, 64}
	dedicated := []int{1, 2}
	procs := []int{1, 2, 4, 16}
	depth, width := 30, 90
	reps := 1
	if o.tier == "thorough" {
		depth, width, reps = 60, 500, 3
	}
	var all []*Transition
	distinct := map[string]bool{}
	sc := 0
	hangs := 0
outer:
	for rep := 0; rep < reps; rep++ {
		for _, sh := range shared {
			for _, de := range dedicated {
				for _, shape := range []string{"chain", "wide", "random", "failing", "wide-failing"} {
					if hangs >= 2 {
						break outer // two hangs are evidence enough; do not wait for more watchdogs
					}
					sc++
					rr := r.fork()
					gmp := procs[rr.intn(len(procs))]
					base := scenarioDir(o, "pool", sc)
					p := newProject(o, base, "in")
					p.ExtraEnv = []string{fmt.Sprintf("DUD_VERIF_SHARED_WORKERS=%d", sh), fmt.Sprintf("DUD_VERIF_DEDICATED_WORKERS=%d", de), fmt.Sprintf("GOMAXPROCS=%d", gmp)}
					forced := sc%3 == 1
					if forced {
						// the cache cannot be renamed into: every file is copied and then replaced by a link
						p.ExtraEnv = append(p.ExtraEnv, "DUD_VERIF_FORCE_NO_RENAME=1")
						s.count("forced-copy-into-cache")
					}
					p.Timeout = 90 * time.Second
					p.init()
					var art *Node
					var pool [][]byte
					switch shape {
					case "chain":
						art = chainTree(depth-rr.intn(5), rr)
					case "wide":
						art = wideTree(width-rr.intn(9), rr)
					default:
						art = genTree(rr, 0, treeOpts{maxDepth: 3, maxFan: 6, hostile: false, allowEmptyDir: true}, &pool, nil)
					}
					if (shape == "wide" || shape == "random") && (forced || rr.chance(1, 2)) {
						long := strings.Repeat("L", 210)
						nl := 2
						if forced {
							nl = 24 // many of them in flight at once
						}
						for k := 0; k < nl; k++ {
							art.set(fmt.Sprintf("%s_%02d", long, k), nFile(rr.bytes(40+k)))
						}
						// and names a few bytes short of NAME_MAX: no room for any suffix
						art.set(strings.Repeat("M", 250), nFile(rr.bytes(33)))
						art.set(strings.Repeat("N", 255), nFile(rr.bytes(34)))
						art.sortEnts()
					}
					failing := shape == "failing" || shape == "wide-failing"
					if shape == "wide-failing" {
						// more entries than all the workers together, and the entry that cannot be
						// committed comes early: the feeder still has entries to hand out when it fails
						art = wideTree(width+200-rr.intn(9), rr)
						art.set("!early_bad", []*Node{{Kind: "o"}, {Kind: "lo", Data: []byte("/nonexistent/target")}}[rr.intn(2)])
						art.sortEnts()
					} else if failing {
						// an entry that cannot be committed, at a random position of a random directory
						var dirs []*Node
						walkEntries(art, "", func(_ string, n *Node) {
							if n.Kind == "d" {
								dirs = append(dirs, n)
							}
						})
						d := dirs[rr.intn(len(dirs))]
						bad := []*Node{{Kind: "o"}, {Kind: "lo", Data: []byte("/nonexistent/target")}}[rr.intn(2)]
						d.set(fmt.Sprintf("m%02d_bad", rr.intn(99)), bad)
					}
					abs := filepath.Join(p.Root, "data")
					materialize(abs, art, p.CacheDir)
					must(os.WriteFile(filepath.Join(p.Root, "src.txt"), []byte("src"), 0o644))
					p.writeStage("s.yaml", &StageRec{Cmd: "echo s.yaml >> .runlog", In: []Art{{Path: "src.txt"}}, Out: []Art{{Path: "data", IsDir: true}}})
					if res := p.dud("", "stage", "add", "s.yaml"); res.Exit != 0 {
						must(fmt.Errorf("pool setup: %s", res.Stderr))
					}
					tagIt := func(t *Transition, step string) {
						t.Info["scenario"] = sc
						t.Info["step"] = step
						t.Info["shape"] = shape
						t.Info["shared"] = sh
						t.Info["dedicated"] = de
						t.Info["gomaxprocs"] = gmp
						t.Info["leaves"] = art.countLeaves()
						all = append(all, t)
					}
					s.count(fmt.Sprintf("shared:%d dedicated:%d", sh, de))
					s.count("shape:" + shape)
					s.count(fmt.Sprintf("gomaxprocs:%d", gmp))
					cp := rr.chance(1, 2)
					if forced {
						cp = false // the link strategy is the one that replaces copies by links afterwards
					}
					sp := want(11, 24)
					if failing {
						sp = want(5, 24)
					}
					t, w := p.do(Cmd{Kind: "commit", Copy: cp}, nil, sp, nil, nil)
					tagIt(t, "commit")
					if p.Hung {
						hangs++
					}
					distinct[fmt.Sprintf("%s-%d-%d-%d", shape, sh, de, rep)] = true
					if !t.OK {
						rmrf(base)
						continue
					}
					t, w = p.do(Cmd{Kind: "status"}, nil, want(11, 24, 15), nil, w)
					tagIt(t, "status")
					rmrf(abs)
					t, w = p.do(Cmd{Kind: "checkout", Copy: rr.chance(1, 2)}, nil, want(11, 24), nil, nil)
					tagIt(t, "checkout")
					// a modified entry deep inside: the short-circuit path of status (via run) and the full one
					if shape != "wide" || true {
						_ = w
						t, _ = p.do(Cmd{Kind: "status"}, nil, want(11, 24, 15), nil, nil)
						tagIt(t, "status after checkout")
					}
					// the short-circuit status path (only `dud run` uses it): several tracked entries
					// modified at different depths, then run
					if !failing && hangs < 2 {
						nedit := 0
						walkEntries(art, "", func(rel string, n *Node) {
							if n.Kind == "f" && nedit < 3 && rr.chance(1, 2) {
								fp := filepath.Join(abs, rel)
								os.Remove(fp)
								must(os.WriteFile(fp, []byte("edited"), 0o644))
								nedit++
							}
						})
						p.Timeout = 25 * time.Second
						t, _ = p.do(Cmd{Kind: "run"}, nil, want(11, 24), nil, nil)
						if p.Hung {
							hangs++ // two hangs are evidence enough; do not wait for more watchdogs
						}
						tagIt(t, fmt.Sprintf("run after %d edits (short-circuit status)", nedit))
					}
					// objects lost from the cache: a directory checkout with entries that fail while others
					// are still queued must end with an error, not hang
					if !failing && hangs < 2 {
						snap, _ := snapCache(p.CacheDir)
						lost := 0
						for _, ob := range snap {
							if !strings.HasPrefix(string(ob.Data), "{\"path\"") && rr.chance(1, 6) && lost < 8 {
								os.Remove(cachePathOf(p.CacheDir, ob.Digest))
								lost++
							}
						}
						if lost > 0 {
							rmrf(abs)
							p.Timeout = 40 * time.Second
							t, _ = p.do(Cmd{Kind: "checkout", Copy: rr.chance(1, 2)}, nil, want(5, 24), nil, nil)
							if p.Hung {
								hangs++
							}
							tagIt(t, fmt.Sprintf("checkout with %d objects lost from the cache", lost))
						}
					}
					rmrf(base)
				}
			}
		}
	}
	s.Cases = len(all)
	s.Nontrivial = len(distinct)
	s.Rule = "shared-pool size {0,1,2,64} x dedicated {1,2} x GOMAXPROCS {1,2,4,16} x tree shape (chain deeper than the pool, directory wider than the pool, random, one un-committable entry at a random position) -> commit, status, checkout, status through the real binary with a watchdog; the model is sequential; every case is non-trivial; distinct by (shape, pool sizes)"
	if len(all) > 0 {
		s.Samples = append(s.Samples, all[0].Info, all[len(all)/2].Info)
	}
	emitTransitions(o, "pool", all, s, 4)
	s.write(o.out)
	rmrf(filepath.Join(o.out, "w"))
	_ = os.Remove
}
