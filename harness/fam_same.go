package main

// Family "same" (C05): fsutil.SameContents on file pairs, small ones (contents go to Coq and the
// model of the read loop is run on them) and ones around the 8 MiB comparison buffer (only
// lengths and the position of a differing byte go to Coq; the expected value is the right-hand
// side of the theorem same_contents_correct, plain byte equality).

import (
	"fmt"
	"os"
	"path/filepath"

	"github.com/kevin-hanselman/dud/src/fsutil"
)

func init() { families["same"] = runSame }

func runSame(o *opts) {
	r := newRng(o.seed)
	s := newSummary("same", o.seed, o.tier)
	tmp := filepath.Join(o.out, "samewd")
	must(os.MkdirAll(tmp, 0o755))
	defer rmrf(tmp)
	pa, pb := filepath.Join(tmp, "a"), filepath.Join(tmp, "b")
	var cases []string
	distinct := map[string]bool{}
	id := 0
	run := func(a, b []byte, diff bool, kind string) {
		must(os.WriteFile(pa, a, 0o644))
		must(os.WriteFile(pb, b, 0o644))
		res, err := fsutil.SameContents(pa, pb)
		id++
		small := "None"
		if len(a) <= 400 && len(b) <= 400 {
			small = fmt.Sprintf("Some (%s, %s)", cx(a), cx(b))
		}
		rs := "None"
		if err == nil {
			rs = "Some " + cbool(res)
		}
		cases = append(cases, fmt.Sprintf("mkSame %d %d %d %s (%s) (%s)", id, len(a), len(b), cbool(diff), small, rs))
		s.CaseIndex[fmt.Sprint(id)] = map[string]interface{}{"kind": kind, "len_a": len(a), "len_b": len(b), "differs_inside": diff, "result": rs}
		s.count("kind:" + kind)
		distinct[fmt.Sprintf("%s|%d|%d", kind, len(a), len(b))] = true
	}
	nulTail := func(n, z int) []byte {
		b := r.bytes(n)
		for i := range b {
			if b[i] == 0 {
				b[i] = 1
			}
		}
		return append(b, make([]byte, z)...)
	}
	nsmall := 120
	if o.tier == "thorough" {
		nsmall = 2000
	}
	for i := 0; i < nsmall; i++ {
		n := []int{0, 1, 2, 7, 8, 9, 63, 64, 65, 100, 300}[r.intn(11)]
		a := r.bytes(n)
		switch r.intn(8) {
		case 0:
			run(a, append([]byte{}, a...), false, "equal")
		case 1:
			if n == 0 {
				continue
			}
			b := append([]byte{}, a...)
			b[[]int{0, n / 2, n - 1}[r.intn(3)]] ^= byte(1 + r.intn(255))
			run(a, b, true, "flip")
		case 2:
			run(a, append(append([]byte{}, a...), r.bytes(1+r.intn(5))...), false, "append-random")
		case 3:
			run(a, append(append([]byte{}, a...), make([]byte, 1+r.intn(9))...), false, "append-nul")
		case 4:
			t := nulTail(n, 1+r.intn(9))
			run(t, t[:n], false, "truncate-trailing-nul")
		case 5:
			t := nulTail(n, 1+r.intn(9))
			run(t[:n], t, false, "extend-with-nul-b-longer")
		case 6:
			if n == 0 {
				continue
			}
			run(a, a[:n-1], false, "truncate")
		default:
			c := make([]byte, n+1+r.intn(4))
			for j := range c {
				c[j] = 'a'
			}
			run(c[:n], c, false, "constant-prefix")
		}
	}
	// around the 8 MiB buffer
	M := 8 << 20
	bigs := []int{M - 1, M, M + 1}
	if o.tier == "thorough" {
		bigs = append(bigs, 2*M-1, 2*M, 2*M+1, 9<<20)
	}
	for _, n := range bigs {
		a := make([]byte, n)
		for i := range a {
			a[i] = 'a'
		}
		run(a, append([]byte{}, a...), false, "big-equal")
		for _, off := range []int{0, M - 1, M, n - 1} {
			if off < 0 || off >= n {
				continue
			}
			b := append([]byte{}, a...)
			b[off] ^= 1
			run(a, b, true, "big-flip")
		}
		// same number of reads, only the length differs, the tail repeats the previous chunk
		run(a, append(append([]byte{}, a...), 'a'), false, "big-constant-extend")
		run(a, a[:n-1], false, "big-truncate")
		z := append(append([]byte{}, a...), make([]byte, 4096)...)
		run(z, a, false, "big-truncate-trailing-nul")
	}
	s.Cases = len(cases)
	s.Nontrivial = len(distinct)
	s.Rule = "file pairs for fsutil.SameContents: equal, one flipped byte (first / middle / last / around 8 MiB), random / NUL / constant extension and truncation (the stale-buffer cases), sizes 0..300 (contents to Coq, model loop run with buffers 4 and 64) and 8 MiB-1, 8 MiB, 8 MiB+1 (thorough: 16 MiB +-1, 9 MiB); distinct by (kind, lengths); every case is non-trivial"
	s.Samples = append(s.Samples, s.CaseIndex["1"], s.CaseIndex[fmt.Sprint(id)])
	imp := "From DudV Require Import Base.Bytes Corr.RunLib."
	writeShards(o.out, "same", imp, "same_case", "run_same", cases, 200, s)
	s.write(o.out)
}
