package main

// Families "crash" (C03) and "fault" (C04): the dud process is killed at, or one of its mutating
// system calls is made to fail at, EVERY position k of a command (ptrace monitor sysmon), from
// identical copies of a prepared project; plus un-committable entries at every position of a
// tree; followed by removal of the cause and a retry.

import (
	"bufio"
	"context"
	"encoding/hex"
	"fmt"
	"os"
	"os/exec"
	"path/filepath"
	"strings"
	"syscall"
	"time"
)

func init() {
	families["crash"] = func(o *opts) { runCrash(o, false) }
	families["fault"] = func(o *opts) { runCrash(o, true) }
}

type crashScenario struct {
	name  string
	args  []string
	env   []string
	build func(p *Project, r *rng) // brings the project into state S
}

func reroot(o *opts, base string, cacheLoc string) *Project {
	p := &Project{Base: base, Root: filepath.Join(base, "outer", "proj"), Xdg: filepath.Join(base, "xdg"), Dud: o.dud}
	if cacheLoc == "rel" {
		p.CacheDir = filepath.Join(p.Root, "mycache")
	} else {
		p.CacheDir = filepath.Join(p.Root, ".dud", "cache")
	}
	p.Env = append(os.Environ(), "XDG_CONFIG_HOME="+p.Xdg, "HOME="+base, "LC_ALL=C.UTF-8")
	return p
}

func sysmonBin() string {
	return filepath.Join(os.Getenv("VERIF_BIN"), "sysmon")
}

// runMon runs dud under sysmon; returns exit code and the number of mutating calls of dud.
func runMon(p *Project, extraEnv []string, logf string, mode []string, args []string) (int, int) {
	a := append([]string{"--log", logf}, mode...)
	a = append(a, "--", p.Dud)
	a = append(a, args...)
	// a watchdog: a disturbed commit that never returns is a result (exit 124), not a reason to wait
	ctx, cancel := context.WithTimeout(context.Background(), 90*time.Second)
	defer cancel()
	cmd := exec.CommandContext(ctx, sysmonBin(), a...)
	cmd.Dir = p.Root
	cmd.Env = append(append([]string{}, p.Env...), extraEnv...)
	cmd.SysProcAttr = &syscall.SysProcAttr{Setpgid: true}
	cmd.Cancel = func() error { return syscall.Kill(-cmd.Process.Pid, syscall.SIGKILL) }
	err := cmd.Run()
	rc := 0
	if ctx.Err() == context.DeadlineExceeded {
		monHangs++
		return 124, -1
	}
	if err != nil {
		rc = 1
		if ee, ok := err.(*exec.ExitError); ok {
			rc = ee.ExitCode()
		}
	}
	count := -1
	if f, err := os.Open(logf); err == nil {
		sc := bufio.NewScanner(f)
		sc.Buffer(make([]byte, 1<<20), 1<<20)
		for sc.Scan() {
			l := sc.Text()
			if strings.HasPrefix(l, "END ") {
				fmt.Sscanf(l, "END count=%d", &count)
			}
		}
		f.Close()
	}
	return rc, count
}

// monHangs counts monitored runs that had to be killed by the watchdog.
var monHangs int

type monCall struct {
	op, class, p1, p2 string
	afterMove         bool // between "workspace file moved/removed" and "link created" for the same path
}

// parseCalls reads a sysmon log of an undisturbed run and classifies the root's mutating calls.
func parseCalls(logf string, p *Project) map[int]monCall {
	out := map[int]monCall{}
	f, err := os.Open(logf)
	if err != nil {
		return out
	}
	defer f.Close()
	classify := func(path string) string {
		path = filepath.Clean(path)
		switch {
		case path == filepath.Join(p.Root, ".dud", "lock"):
			return "lock"
		case strings.HasPrefix(path, p.CacheDir+"/") || path == p.CacheDir:
			return "cache"
		case path == filepath.Join(p.Root, ".dud", "index") || strings.HasPrefix(filepath.Base(path), ".dud-index-"):
			return "index"
		case strings.HasPrefix(path, filepath.Join(p.Root, ".dud")+"/"):
			return "dotdud"
		case strings.HasSuffix(path, ".yaml") || strings.HasPrefix(filepath.Base(path), ".dud-stage-"):
			return "stagefile"
		case strings.HasPrefix(path, p.Root+"/"):
			return "workspace"
		}
		return "outside"
	}
	pending := map[string]bool{} // workspace paths moved away / removed and not yet linked
	sc := bufio.NewScanner(f)
	sc.Buffer(make([]byte, 1<<20), 1<<20)
	for sc.Scan() {
		parts := strings.Split(sc.Text(), "\t")
		if len(parts) < 5 || parts[1] != "ROOT" {
			continue
		}
		var k int
		fmt.Sscanf(parts[0], "%d", &k)
		c := monCall{op: parts[2], class: classify(parts[3]), p1: filepath.Clean(parts[3]), p2: parts[4]}
		c.afterMove = len(pending) > 0
		switch {
		case c.op == "rename" && c.class == "workspace" && classify(parts[4]) == "cache":
			pending[c.p1] = true
		case c.op == "unlink" && c.class == "workspace" && filepath.Dir(c.p1) != p.Root:
			pending[c.p1] = true
		case c.op == "symlink" && c.class == "workspace":
			c.afterMove = true
			delete(pending, c.p1)
		}
		out[k] = c
	}
	return out
}

func stageSet(p *Project, files ...string) {
	for _, f := range files {
		found := false
		for _, x := range p.StageFs {
			if x == f {
				found = true
			}
		}
		if !found {
			p.StageFs = append(p.StageFs, f)
		}
	}
}

func crashScenarios(r *rng, tier string) []crashScenario {
	tree := func(r *rng, big bool) *Node {
		var pool [][]byte
		to := treeOpts{maxDepth: 1, maxFan: 3, siblings: true}
		if big {
			to = treeOpts{maxDepth: 2, maxFan: 6, siblings: true}
		}
		t := genTree(r, 0, to, &pool, nil)
		t.set("always", nFile([]byte("always here")))
		t.set("always.dud-link", nFile([]byte("a tracked file that merely looks like a temporary name")))
		t.set("sub", nDir(Ent{"inner", nFile([]byte("inner file"))}))
		return t
	}
	big := tier == "thorough"
	mk := func(name string, args []string, env []string, b func(p *Project, r *rng)) crashScenario {
		return crashScenario{name, args, env, b}
	}
	dirStage := func(p *Project, r *rng) {
		materialize(filepath.Join(p.Root, "data"), tree(r, big), p.CacheDir)
		p.writeStage("s.yaml", &StageRec{Out: []Art{{Path: "data", IsDir: true}}})
		p.dud("", "stage", "add", "s.yaml")
	}
	fileStage := func(p *Project, r *rng) {
		must(os.WriteFile(filepath.Join(p.Root, "one.bin"), r.bytes(100), 0o644))
		p.writeStage("s.yaml", &StageRec{Out: []Art{{Path: "one.bin"}}})
		p.dud("", "stage", "add", "s.yaml")
	}
	noRename := []string{"DUD_VERIF_FORCE_NO_RENAME=1"}
	var out []crashScenario
	out = append(out,
		mk("commit file link", []string{"commit"}, nil, fileStage),
		mk("commit file copy", []string{"commit", "--copy"}, nil, fileStage),
		mk("commit file link cross-device", []string{"commit"}, noRename, fileStage),
		mk("commit dir link", []string{"commit"}, nil, dirStage),
		mk("commit dir copy", []string{"commit", "--copy"}, nil, dirStage),
		mk("commit dir link cross-device", []string{"commit"}, noRename, dirStage),
		mk("recommit dir over old manifest", []string{"commit"}, nil, func(p *Project, r *rng) {
			dirStage(p, r)
			p.dud("", "commit")
			must(os.WriteFile(filepath.Join(p.Root, "data", "added.txt"), []byte("added later"), 0o644))
			os.Remove(filepath.Join(p.Root, "data", "always"))
			must(os.WriteFile(filepath.Join(p.Root, "data", "always"), []byte("changed"), 0o644))
		}),
		mk("recommit dir copy over old manifest", []string{"commit", "--copy"}, noRename, func(p *Project, r *rng) {
			dirStage(p, r)
			p.dud("", "commit", "--copy")
			must(os.WriteFile(filepath.Join(p.Root, "data", "sub", "inner"), []byte("inner changed"), 0o644))
		}),
		mk("commit dir sharing content with an already committed object", []string{"commit", "t.yaml"}, nil, func(p *Project, r *rng) {
			fileStage(p, r)
			p.dud("", "commit")
			shared, _ := os.ReadFile(cachePathOf(p.CacheDir, p.observe().Cache[0].Digest))
			must(os.MkdirAll(filepath.Join(p.Root, "more"), 0o755))
			must(os.WriteFile(filepath.Join(p.Root, "more", "same-bytes.bin"), shared, 0o644))
			must(os.WriteFile(filepath.Join(p.Root, "more", "other.txt"), []byte("other"), 0o644))
			p.writeStage("t.yaml", &StageRec{Out: []Art{{Path: "more", IsDir: true}}})
			p.dud("", "stage", "add", "t.yaml")
		}),
		mk("commit dir sharing content with an already committed object, cross-device", []string{"commit", "t.yaml"}, noRename, func(p *Project, r *rng) {
			fileStage(p, r)
			p.dud("", "commit", "--copy")
			shared, _ := os.ReadFile(filepath.Join(p.Root, "one.bin"))
			must(os.MkdirAll(filepath.Join(p.Root, "more"), 0o755))
			must(os.WriteFile(filepath.Join(p.Root, "more", "same-bytes.bin"), shared, 0o644))
			must(os.WriteFile(filepath.Join(p.Root, "more", "other.txt"), []byte("other"), 0o644))
			p.writeStage("t.yaml", &StageRec{Out: []Art{{Path: "more", IsDir: true}}})
			p.dud("", "stage", "add", "t.yaml")
		}),
		mk("commit file link cross-device, committed as a copy before", []string{"commit"}, noRename, func(p *Project, r *rng) {
			fileStage(p, r)
			p.dud("", "commit", "--copy")
		}),
		mk("checkout dir link", []string{"checkout"}, nil, func(p *Project, r *rng) {
			dirStage(p, r)
			p.dud("", "commit")
			rmrf(filepath.Join(p.Root, "data"))
		}),
		mk("checkout dir copy", []string{"checkout", "--copy"}, nil, func(p *Project, r *rng) {
			dirStage(p, r)
			p.dud("", "commit")
			rmrf(filepath.Join(p.Root, "data"))
		}),
		mk("checkout dir copy over matching links", []string{"checkout", "--copy"}, nil, func(p *Project, r *rng) {
			dirStage(p, r)
			p.dud("", "commit")
		}),
		mk("stage add", []string{"stage", "add", "t.yaml"}, nil, func(p *Project, r *rng) {
			dirStage(p, r)
			must(os.WriteFile(filepath.Join(p.Root, "other.txt"), []byte("o"), 0o644))
			p.writeStage("t.yaml", &StageRec{Out: []Art{{Path: "other.txt"}}})
		}),
		mk("stage remove", []string{"stage", "remove", "s.yaml"}, nil, func(p *Project, r *rng) {
			dirStage(p, r)
			must(os.WriteFile(filepath.Join(p.Root, "other.txt"), []byte("o"), 0o644))
			p.writeStage("t.yaml", &StageRec{Out: []Art{{Path: "other.txt"}}})
			p.dud("", "stage", "add", "t.yaml")
		}),
		mk("stage add of three stages at once", []string{"stage", "add", "t.yaml", "u.yaml", "v.yaml"}, nil, func(p *Project, r *rng) {
			dirStage(p, r)
			for _, n := range []string{"t", "u", "v"} {
				must(os.WriteFile(filepath.Join(p.Root, n+".txt"), []byte(n), 0o644))
				p.writeStage(n+".yaml", &StageRec{Out: []Art{{Path: n + ".txt"}}})
			}
		}),
		mk("stage remove of two stages at once", []string{"stage", "remove", "t.yaml", "s.yaml"}, nil, func(p *Project, r *rng) {
			dirStage(p, r)
			for _, n := range []string{"t", "u"} {
				must(os.WriteFile(filepath.Join(p.Root, n+".txt"), []byte(n), 0o644))
				p.writeStage(n+".yaml", &StageRec{Out: []Art{{Path: n + ".txt"}}})
			}
			p.dud("", "stage", "add", "t.yaml", "u.yaml")
		}),
		mk("commit of a stage whose own file is a link into the cache", []string{"commit", "train.yaml"}, nil, func(p *Project, r *rng) {
			// train.yaml is a generated pipeline step: an output of gen.yaml, committed with the link strategy
			must(os.WriteFile(filepath.Join(p.Root, "model.bin"), r.bytes(50), 0o644))
			p.writeStage("train.yaml", &StageRec{Out: []Art{{Path: "model.bin"}}})
			p.writeStage("gen.yaml", &StageRec{Out: []Art{{Path: "train.yaml"}}})
			p.dud("", "stage", "add", "gen.yaml", "train.yaml")
			p.dud("", "commit")
			os.Remove(filepath.Join(p.Root, "model.bin"))
			must(os.WriteFile(filepath.Join(p.Root, "model.bin"), r.bytes(60), 0o644))
		}),
		mk("commit two-stage pipeline", []string{"commit"}, nil, func(p *Project, r *rng) {
			must(os.WriteFile(filepath.Join(p.Root, "src.txt"), []byte("source"), 0o644))
			must(os.WriteFile(filepath.Join(p.Root, "mid.txt"), []byte("middle"), 0o644))
			materialize(filepath.Join(p.Root, "fin"), tree(r, false), p.CacheDir)
			p.writeStage("a.yaml", &StageRec{Cmd: "true", In: []Art{{Path: "src.txt"}}, Out: []Art{{Path: "mid.txt"}}})
			p.writeStage("b.yaml", &StageRec{Cmd: "true", In: []Art{{Path: "mid.txt"}}, Out: []Art{{Path: "fin", IsDir: true}}})
			p.dud("", "stage", "add", "a.yaml", "b.yaml")
		}),
		mk("commit pipeline, downstream stage named before an unrelated one", []string{"commit", "b.yaml", "c.yaml"}, nil, func(p *Project, r *rng) {
			pipeline3(p, r)
		}),
		mk("commit pipeline, downstream stage named before its upstream stage", []string{"commit", "--copy", "b.yaml", "a.yaml", "c.yaml"}, nil, func(p *Project, r *rng) {
			pipeline3(p, r)
		}),
	)
	return out
}

// pipeline3: a -> b (b reads a's output), c on its own; nothing committed yet
func pipeline3(p *Project, r *rng) {
	must(os.WriteFile(filepath.Join(p.Root, "src.txt"), []byte("source"), 0o644))
	must(os.WriteFile(filepath.Join(p.Root, "raw.txt"), r.bytes(40), 0o644))
	must(os.WriteFile(filepath.Join(p.Root, "raw2.txt"), r.bytes(41), 0o644))
	must(os.WriteFile(filepath.Join(p.Root, "fin.txt"), r.bytes(42), 0o644))
	must(os.WriteFile(filepath.Join(p.Root, "side.txt"), r.bytes(43), 0o644))
	p.writeStage("a.yaml", &StageRec{Cmd: "true", In: []Art{{Path: "src.txt"}}, Out: []Art{{Path: "raw.txt"}, {Path: "raw2.txt"}}})
	p.writeStage("b.yaml", &StageRec{Cmd: "true", In: []Art{{Path: "raw.txt"}}, Out: []Art{{Path: "fin.txt"}}})
	p.writeStage("c.yaml", &StageRec{Out: []Art{{Path: "side.txt"}}})
	p.dud("", "stage", "add", "a.yaml", "b.yaml", "c.yaml")
}

func rawTriples(s, f, w *World) string {
	var parts []string
	for i := range s.Stages {
		var fr, wr []byte
		if i < len(f.Stages) {
			fr = f.Stages[i].Raw
		}
		if i < len(w.Stages) {
			wr = w.Stages[i].Raw
		}
		parts = append(parts, fmt.Sprintf("(%s, %s, %s)", cx(s.Stages[i].Raw), cx(fr), cx(wr)))
	}
	return clist(parts)
}

func kcaseCoq(id int, s, f, w *World, exitOK bool, retry *World, retryOK bool, specs []int) string {
	sp := make([]string, len(specs))
	for i, x := range specs {
		sp[i] = fmt.Sprint(x)
	}
	rt := "None"
	if retry != nil {
		rt = fmt.Sprintf("Some (%s, %s)", cbool(retryOK), retry.coq())
	}
	return fmt.Sprintf("mkK %d\n (%s)\n (%s)\n (%s)\n %s %s\n (%s) %s", id, s.coq(), f.coq(), w.coq(), rawTriples(s, f, w), cbool(exitOK), rt, clist(sp))
}

func runCrash(o *opts, fault bool) {
	fam := "crash"
	if fault {
		fam = "fault"
	}
	r := newRng(o.seed)
	s := newSummary(fam, o.seed, o.tier)
	scs := crashScenarios(r, o.tier)
	var cases []string
	distinct := map[string]bool{}
	id := 0
	errnos := []int{int(syscall.EIO), int(syscall.ENOSPC), int(syscall.EACCES)}
	for si, sc := range scs {
		if fault && !strings.HasPrefix(sc.name, "commit") && !strings.HasPrefix(sc.name, "recommit") {
			continue // C04 is about commit
		}
		rr := r.fork()
		base := scenarioDir(o, fam, si)
		tpl := filepath.Join(base, "tpl")
		must(os.MkdirAll(tpl, 0o755))
		cacheLoc := []string{"in", "rel"}[si%2]
		p0 := newProject(o, tpl, cacheLoc)
		p0.init()
		sc.build(p0, rr)
		S := p0.observe()
		stageFs := p0.StageFs
		// undisturbed run on a copy: F and the number of mutating calls
		runDir := func(tag string) *Project {
			d := filepath.Join(base, tag)
			copyTree(tpl, d)
			p := reroot(o, d, cacheLoc)
			p.StageFs = stageFs
			return p
		}
		pf := runDir("full")
		_, n := runMon(pf, sc.env, filepath.Join(base, "full.log"), nil, sc.args)
		F := pf.observe()
		calls := parseCalls(filepath.Join(base, "full.log"), pf)
		rmrf(pf.Base)
		if n <= 0 {
			must(fmt.Errorf("%s: sysmon counted %d calls", sc.name, n))
		}
		s.count(fmt.Sprintf("scenario:%s", sc.name))
		s.Extra[sc.name] = fmt.Sprintf("%d mutating system calls", n)
		for k := 1; k <= n; k++ {
			if monHangs >= 3 {
				break // three hangs are evidence enough
			}
			call := calls[k]
			if fault && call.class == "lock" && call.op == "unlink" {
				continue // the release of the lock itself cannot be made to fail and still unlock
			}
			pk := runDir(fmt.Sprintf("k%d", k))
			mode := []string{"--kill", fmt.Sprint(k)}
			en := 0
			if fault {
				en = errnos[(k+si)%len(errnos)]
				mode = []string{"--fail", fmt.Sprint(k), fmt.Sprint(en)}
			}
			if fault {
				mode = append(mode, "--nofail", filepath.Join(pk.Root, ".dud", "lock"))
			}
			rc, _ := runMon(pk, sc.env, filepath.Join(base, "k.log"), mode, sc.args)
			// the order of the calls differs between runs (worker goroutines): what was disturbed
			// is read from THIS run's log, not from the undisturbed run's
			if actual, ok := parseCalls(filepath.Join(base, "k.log"), pk)[k]; ok {
				call = actual
			}
			W := pk.observe()
			if fault && call.op != "unlink" {
				// a command that RETURNS with an error has removed its temporary copies: whatever else
				// sits in the cache directory afterwards is an entry under a name that is no digest
				// (reported through spec 41). Not so when the failing call was the removal itself,
				// and not after a kill (C03 allows temporary files there).
				have := map[string]bool{}
				for _, st := range S.Stray {
					have[st] = true
				}
				for _, st := range W.Stray {
					if !have[st] {
						W.Cache = append(W.Cache, CObj{Digest: "stray-entry-" + hex.EncodeToString([]byte(st)), Data: []byte("left behind"), Mode: 0o600})
					}
				}
			}
			id++
			specs := want(40, 41, 42, 48)
			var R *World
			retryOK := false
			if fault {
				specs = want(40, 41, 43, 44, 45, 46, 47, 48)
				// the cause (a transient error) is gone: retry the same command
				pk.Timeout = 90 * time.Second
				res := pk.dud("", sc.args...)
				if pk.Hung {
					monHangs++
				}
				// stray temp files in the cache root are allowed
				R = pk.observe()
				retryOK = res.Exit == 0
			}
			cases = append(cases, kcaseCoq(id, S, F, W, rc == 0, R, retryOK, specs))
			info := map[string]interface{}{"scenario": sc.name, "k": k, "of": n, "exit": rc, "call": call.op + " " + call.class}
			if call.afterMove {
				info["between_move_into_cache_and_link"] = true
			}
			if fault {
				info["errno"] = en
				info["retry_ok"] = retryOK
				if os.Getenv("VERIF_DEBUG") != "" && R != nil && R.coq() != F.coq() {
					fmt.Fprintf(os.Stderr, "DEBUG %s k=%d\n R=%s\n F=%s\n", sc.name, k, R.Root.coq(), F.Root.coq())
				}
			}
			s.CaseIndex[fmt.Sprint(id)] = info
			if W.Root.coq() != S.Root.coq() && W.Root.coq() != F.Root.coq() || len(W.Cache) != len(S.Cache) && len(W.Cache) != len(F.Cache) {
				distinct[fmt.Sprintf("%s@%d", sc.name, k)] = true
			}
			rmrf(pk.Base)
		}
		rmrf(base)
	}
	if fault {
		// un-committable entries at every position of a tree, then removal of the cause and retry
		for rep := 0; rep < 3; rep++ {
			rr := r.fork()
			var pool [][]byte
			t := genTree(rr, 0, treeOpts{maxDepth: 1, maxFan: 4}, &pool, nil)
			if rep == 2 {
				// more entries than all the commit workers together, the bad one first in the listing:
				// the feeder still has entries to hand out when the failure cancels the group
				t = wideTree(150, rr)
			}
			t.set("keep", nFile([]byte("keep me")))
			var names []string
			for _, e := range t.Ents {
				names = append(names, e.Name)
			}
			for pos := 0; pos <= len(names); pos++ {
				if rep == 2 && pos > 0 {
					break
				}
				kinds := []string{"foreign-link", "fifo", "dangling-cache-link"}
				if pos == 0 || pos == len(names) {
					// names that are not valid UTF-8 cannot be recorded: a file, and a DIRECTORY of
					// ordinary files
					kinds = append(kinds, "invalid-utf8-file-name", "invalid-utf8-dir-name")
				}
				for _, kind := range kinds {
					base := scenarioDir(o, fam, 1000+rep*100+pos*10+len(kind))
					p := newProject(o, base, "in")
					p.init()
					tt := t.clone()
					// the bad entry sorts right before position pos
					bad := "zzz_bad"
					if pos < len(names) {
						bad = names[pos] + "~bad"
						if pos > 0 {
							bad = names[pos-1] + "~bad"
						} else {
							bad = "!bad"
						}
					}
					var bn *Node
					switch kind {
					case "foreign-link":
						bn = &Node{Kind: "lo", Data: []byte("/etc/hostname")}
					case "fifo":
						bn = &Node{Kind: "o"}
					case "invalid-utf8-file-name":
						bad += "\xff"
						bn = nFile([]byte("named in Latin-1"))
					case "invalid-utf8-dir-name":
						bad += "caf\xe9"
						bn = nDir(Ent{"ordinary.txt", nFile([]byte("inside"))})
					default:
						bn = &Node{Kind: "lc", Data: []byte(strings.Repeat("ab", 32))}
					}
					tt.set(bad, bn)
					materialize(filepath.Join(p.Root, "data"), tt, p.CacheDir)
					p.writeStage("s.yaml", &StageRec{Out: []Art{{Path: "data", IsDir: true}}})
					p.dud("", "stage", "add", "s.yaml")
					S := p.observe()
					cp := rr.chance(1, 2)
					args := []string{"commit"}
					if cp {
						args = append(args, "--copy")
					}
					if monHangs >= 3 {
						rmrf(base)
						continue
					}
					p.Timeout = 90 * time.Second
					res := p.dud("", args...)
					if p.Hung {
						monHangs++
					}
					W := p.observe()
					// remove the cause, retry
					os.RemoveAll(filepath.Join(p.Root, "data", bad))
					res2 := p.dud("", args...)
					R := p.observe()
					// F: what an undisturbed commit of the tree without the bad entry gives
					base2 := scenarioDir(o, fam, 5000+rep*100+pos*10+len(kind))
					p2 := newProject(o, base2, "in")
					p2.init()
					materialize(filepath.Join(p2.Root, "data"), t, p2.CacheDir)
					p2.writeStage("s.yaml", &StageRec{Out: []Art{{Path: "data", IsDir: true}}})
					p2.dud("", "stage", "add", "s.yaml")
					p2.dud("", args...)
					F := p2.observe()
					id++
					// S for the no-loss statement: the tracked files of the tree with the bad entry
					bsp := want(40, 41, 43, 44, 45, 46, 47)
					if strings.HasPrefix(kind, "invalid-utf8") {
						// (the entry removed before the retry held bytes of its own: their absence
						// afterwards is the user's doing, not a loss)
						bsp = want(40, 41, 43, 44, 45, 46)
					}
					cases = append(cases, kcaseCoq(id, S, F, W, res.Exit == 0, R, res2.Exit == 0, bsp))
					s.CaseIndex[fmt.Sprint(id)] = map[string]interface{}{"scenario": "un-committable entry", "kind": kind, "position": pos, "entries": len(names), "copy": cp, "exit": res.Exit, "retry_ok": res2.Exit == 0}
					s.count("bad-entry:" + kind)
					distinct[fmt.Sprintf("bad-%s-%d-%d", kind, pos, rep)] = true
					rmrf(base)
					rmrf(base2)
				}
			}
		}
	}
	s.Cases = len(cases)
	s.Nontrivial = len(distinct)
	if fault {
		s.Rule = "commit scenarios (file / directory, first commit / recommit over an old manifest, link / copy, rename-able / forced-copy cache, two-stage pipeline) x an injected error (EIO / ENOSPC / EACCES) at EVERY mutating system call k of the dud process, then a retry; un-committable entries (foreign link, FIFO, dangling cache link at every position of a tree; a file and a directory whose names are not valid UTF-8 at the first and last position), then removal + retry; non-trivial = the disturbed state differs from both the initial and the final state; distinct by (scenario, k)"
	} else {
		s.Rule = "scenarios (file / directory artifact, first commit / recommit over an old manifest, link / copy, rename-able / forced-copy cache, checkout link / copy / over matching links, stage add / remove, two-stage pipeline) x SIGKILL at the entry of EVERY mutating system call k of the dud process (ptrace, all threads followed); non-trivial = the state after the kill differs from both the initial and the completed state; distinct by (scenario, k)"
	}
	s.Extra["exhaustive"] = "every k from 1 to the number of mutating system calls of each scenario"
	s.Samples = append(s.Samples, s.CaseIndex["1"], s.CaseIndex[fmt.Sprint(id/2)])
	imp := "From DudV Require Import Base.Bytes Model.Fs Model.Cache Model.Stage Model.Index Model.System Corr.RunSys Corr.RunCrash."
	writeShards(o.out, fam, imp, "kcase", "run_crash", cases, 8, s)
	s.write(o.out)
	rmrf(filepath.Join(o.out, "w"))
}
