package main

// Family "defedit" (C17, last clause): through the CLI. A stage is committed; its DEFINITION is then
// edited by hand in a way that changes no artifact checksum (command text, working directory, a flag
// of an input, an input added / removed, an artifact moved between the sections); `dud status` must
// report the definition as modified (spec 29); after `dud commit` it must report it - and every
// artifact - as up to date again (spec 15), and the stage file dud wrote must load to exactly what
// the model's commit records (correspondence).

import (
	"fmt"
	"os"
	"path/filepath"
)

func init() { families["defedit"] = runDefEdit }

func runDefEdit(o *opts) {
	r := newRng(o.seed)
	s := newSummary("defedit", o.seed, o.tier)
	rounds := 2
	if o.tier == "thorough" {
		rounds = 12
	}
	if o.n > 0 {
		rounds = o.n
	}
	type edit struct {
		name string
		f    func(rec *StageRec, r *rng)
	}
	edits := []edit{
		{"command text", func(rec *StageRec, r *rng) { rec.Cmd = rec.Cmd + fmt.Sprintf(" # v%d", r.intn(1000)) }},
		{"command replaced", func(rec *StageRec, r *rng) { rec.Cmd = "true" }},
		{"working directory", func(rec *StageRec, r *rng) { rec.Wd = "wd" }},
		{"input flag disable-recursion", func(rec *StageRec, r *rng) {
			for i := range rec.In {
				if rec.In[i].IsDir {
					rec.In[i].NoRec = !rec.In[i].NoRec
				}
			}
		}},
		{"input removed", func(rec *StageRec, r *rng) { rec.In = rec.In[:len(rec.In)-1] }},
		{"input added", func(rec *StageRec, r *rng) { rec.In = append(rec.In, Art{Path: "extra.txt"}) }},
		{"output flag skip-cache on an uncached-so-far file", func(rec *StageRec, r *rng) {
			// (the flag changes what the NEXT commit does with the file, not its checksum)
			for i := range rec.Out {
				if rec.Out[i].Path == "metrics.txt" {
					rec.Out[i].Skip = !rec.Out[i].Skip
				}
			}
		}},
	}
	var all []*Transition
	distinct := map[string]bool{}
	sc := 0
	for round := 0; round < rounds; round++ {
		for ei, e := range edits {
			sc++
			rr := r.fork()
			base := scenarioDir(o, "defedit", sc)
			p := newProject(o, base, []string{"in", "abs", "rel"}[sc%3])
			p.init()
			must(os.MkdirAll(filepath.Join(p.Root, "wd"), 0o755))
			must(os.MkdirAll(filepath.Join(p.Root, "cfg", "below"), 0o755))
			must(os.WriteFile(filepath.Join(p.Root, "cfg", "top.txt"), rr.bytes(20), 0o644))
			must(os.WriteFile(filepath.Join(p.Root, "cfg", "below", "deep.txt"), rr.bytes(21), 0o644))
			must(os.WriteFile(filepath.Join(p.Root, "in.txt"), rr.bytes(30), 0o644))
			must(os.WriteFile(filepath.Join(p.Root, "extra.txt"), rr.bytes(31), 0o644))
			must(os.WriteFile(filepath.Join(p.Root, "out.bin"), rr.bytes(40), 0o644))
			must(os.WriteFile(filepath.Join(p.Root, "metrics.txt"), []byte("m 1\n"), 0o644))
			rec := &StageRec{Cmd: "echo built", In: []Art{{Path: "cfg", IsDir: true, NoRec: true}, {Path: "in.txt"}},
				Out: []Art{{Path: "metrics.txt", Skip: true}, {Path: "out.bin"}}}
			p.writeStage("s.yaml", rec)
			if res := p.dud("", "stage", "add", "s.yaml"); res.Exit != 0 {
				must(fmt.Errorf("defedit setup: %s", res.Stderr))
			}
			tag := func(t *Transition, step string) {
				t.Info["scenario"] = sc
				t.Info["step"] = step
				t.Info["edit"] = e.name
				all = append(all, t)
			}
			cp := rr.chance(1, 2)
			t, _ := p.do(Cmd{Kind: "commit", Copy: cp}, nil, want(11, 13), nil, nil)
			tag(t, "commit")
			if !t.OK {
				rmrf(base)
				continue
			}
			t, _ = p.do(Cmd{Kind: "status"}, nil, want(11, 15), nil, nil)
			tag(t, "status right after commit")
			// the definition is edited by hand; every recorded checksum stays where it is
			cur := loadStage(filepath.Join(p.Root, "s.yaml"))
			if cur == nil {
				must(fmt.Errorf("defedit: stage file unreadable after commit"))
			}
			e.f(cur, rr)
			p.writeStage("s.yaml", cur)
			t, _ = p.do(Cmd{Kind: "status"}, nil, want(11, 29), nil, nil)
			tag(t, "status after the definition edit")
			t, _ = p.do(Cmd{Kind: "commit", Copy: rr.chance(1, 2)}, nil, want(11, 13), nil, nil)
			tag(t, "commit of the edited definition")
			if t.OK {
				t, _ = p.do(Cmd{Kind: "status"}, nil, want(11, 15), nil, nil)
				tag(t, "status right after the second commit")
			}
			s.count("edit:" + e.name)
			distinct[fmt.Sprintf("%d|%v", ei, cp)] = true
			rmrf(base)
			if p.CacheCfg != "" && filepath.Dir(p.CacheDir) != base {
				rmrf(filepath.Dir(p.CacheDir))
			}
		}
	}
	s.Cases = len(all)
	s.Nontrivial = len(distinct)
	s.Rule = "one stage (command, non-recursive directory input, file input, skip-cache and cached outputs) committed through the CLI; the definition edited by hand with all recorded checksums kept (command text / replaced, working directory, input flag, input added / removed, output flag); status must call the definition modified (29); after commit, status must call the definition and every artifact up to date (15); every transition also compared with the model; every case is non-trivial; distinct by (edit, strategy)"
	if len(all) > 0 {
		s.Samples = append(s.Samples, all[0].Info, all[len(all)/2].Info)
	}
	emitTransitions(o, "defedit", all, s, 10)
	s.write(o.out)
	rmrf(filepath.Join(o.out, "w"))
}
