package main

// `dudh facts`: regenerates SourceFacts.v from the CURRENT source of /repo with go/ast: constants
// and flags that the theorems' side conditions are about. Per-property FactsOK_<ID>.v files
// (in /verif/coq/Facts) are compiled against it on every run: a changed constant or flag breaks a
// proof obligation.

import (
	"fmt"
	"go/ast"
	"go/parser"
	"go/token"
	"os"
	"path/filepath"
	"sort"
	"strconv"
	"strings"
)

func init() { families["facts"] = runFacts }

type srcFile struct {
	path string
	f    *ast.File
}

func parseDir(fset *token.FileSet, dir string) []srcFile {
	var out []srcFile
	ents, err := os.ReadDir(dir)
	must(err)
	for _, e := range ents {
		if e.IsDir() || !strings.HasSuffix(e.Name(), ".go") || strings.HasSuffix(e.Name(), "_test.go") {
			continue
		}
		p := filepath.Join(dir, e.Name())
		f, err := parser.ParseFile(fset, p, nil, 0)
		must(err)
		// files guarded by the verif build tag are hooks, not the program
		if strings.HasPrefix(e.Name(), "verif_") {
			continue
		}
		out = append(out, srcFile{p, f})
	}
	return out
}

// evalInt evaluates integer literals, products and the datasize constants.
func evalInt(e ast.Expr) (int64, bool) {
	switch v := e.(type) {
	case *ast.BasicLit:
		n, err := strconv.ParseInt(v.Value, 0, 64)
		return n, err == nil
	case *ast.BinaryExpr:
		a, ok1 := evalInt(v.X)
		b, ok2 := evalInt(v.Y)
		if ok1 && ok2 && v.Op == token.MUL {
			return a * b, true
		}
	case *ast.SelectorExpr:
		switch v.Sel.Name {
		case "KB":
			return 1 << 10, true
		case "MB":
			return 1 << 20, true
		case "GB":
			return 1 << 30, true
		}
	case *ast.ParenExpr:
		return evalInt(v.X)
	}
	return 0, false
}

func findValue(files []srcFile, name string) (int64, bool) {
	for _, sf := range files {
		for _, d := range sf.f.Decls {
			gd, ok := d.(*ast.GenDecl)
			if !ok {
				continue
			}
			for _, sp := range gd.Specs {
				vs, ok := sp.(*ast.ValueSpec)
				if !ok {
					continue
				}
				for i, n := range vs.Names {
					if n.Name == name && i < len(vs.Values) {
						return evalInt(vs.Values[i])
					}
				}
			}
		}
	}
	return 0, false
}

func findFunc(files []srcFile, name string) *ast.FuncDecl {
	for _, sf := range files {
		for _, d := range sf.f.Decls {
			if fd, ok := d.(*ast.FuncDecl); ok && fd.Name.Name == name {
				return fd
			}
		}
	}
	return nil
}

// callsIn lists the names of the functions called inside a node (pkg.Fn as "pkg.Fn").
func callsIn(n ast.Node) []string {
	var out []string
	ast.Inspect(n, func(x ast.Node) bool {
		if c, ok := x.(*ast.CallExpr); ok {
			switch f := c.Fun.(type) {
			case *ast.Ident:
				out = append(out, f.Name)
			case *ast.SelectorExpr:
				if id, ok := f.X.(*ast.Ident); ok {
					out = append(out, id.Name+"."+f.Sel.Name)
				} else {
					out = append(out, "."+f.Sel.Name)
				}
			}
		}
		return true
	})
	return out
}

// openFlags returns the flag names of the first os.OpenFile call inside n.
func openFlags(n ast.Node) []string {
	var flags []string
	found := false
	ast.Inspect(n, func(x ast.Node) bool {
		c, ok := x.(*ast.CallExpr)
		if !ok || found {
			return !found
		}
		if se, ok := c.Fun.(*ast.SelectorExpr); ok && se.Sel.Name == "OpenFile" && len(c.Args) >= 2 {
			found = true
			ast.Inspect(c.Args[1], func(y ast.Node) bool {
				if s, ok := y.(*ast.SelectorExpr); ok {
					flags = append(flags, s.Sel.Name)
				}
				return true
			})
		}
		return true
	})
	sort.Strings(flags)
	return flags
}

func has(l []string, x string) bool {
	for _, y := range l {
		if y == x {
			return true
		}
	}
	return false
}

func coqStrList(l []string) string {
	q := make([]string, len(l))
	for i, s := range l {
		q[i] = `"` + s + `"`
	}
	return "[" + strings.Join(q, "; ") + "]%string"
}

func runFacts(o *opts) {
	fset := token.NewFileSet()
	src := filepath.Join(o.repo, "src")
	cacheF := parseDir(fset, filepath.Join(src, "cache"))
	cmdF := parseDir(fset, filepath.Join(src, "cmd"))
	sumF := parseDir(fset, filepath.Join(src, "checksum"))
	fsF := parseDir(fset, filepath.Join(src, "fsutil"))
	stageF := parseDir(fset, filepath.Join(src, "stage"))
	indexF := parseDir(fset, filepath.Join(src, "index"))
	var sb strings.Builder
	sb.WriteString("(* GENERATED on every run by `dudh facts` from the source under " + src + " - do not edit *)\n")
	sb.WriteString("From Coq Require Import NArith List String.\nImport ListNotations.\nLocal Open Scope N_scope.\n\n")
	num := func(name string, files []srcFile, goName string) {
		v, ok := findValue(files, goName)
		if !ok {
			must(fmt.Errorf("facts: cannot extract %s (the code moved: the tie is broken)", goName))
		}
		fmt.Fprintf(&sb, "Definition %s : N := %d.\n", name, v)
	}
	num("cacheFilePerms", cacheF, "cacheFilePerms")
	num("maxSharedWorkers", cacheF, "maxSharedWorkers")
	num("maxDedicatedWorkers", cacheF, "maxDedicatedWorkers")
	num("defaultBufferSize", sumF, "DefaultBufferSize")
	// SameContents buffer: the make([]byte, N) inside SameContents
	same := findFunc(fsF, "SameContents")
	if same == nil {
		must(fmt.Errorf("facts: SameContents not found"))
	}
	var bufSize int64 = -1
	ast.Inspect(same, func(x ast.Node) bool {
		if c, ok := x.(*ast.CallExpr); ok {
			if id, ok := c.Fun.(*ast.Ident); ok && id.Name == "make" && len(c.Args) == 2 && bufSize < 0 {
				if v, ok := evalInt(c.Args[1]); ok {
					bufSize = v
				}
			}
		}
		return true
	})
	if bufSize < 0 {
		must(fmt.Errorf("facts: SameContents buffer size not found"))
	}
	fmt.Fprintf(&sb, "Definition sameContentsBuffer : N := %d.\n", bufSize)
	// open flags
	lock := findFunc(cmdF, "lockProject")
	co := findFunc(cacheF, "checkoutFile")
	if lock == nil || co == nil {
		must(fmt.Errorf("facts: lockProject / checkoutFile not found"))
	}
	fmt.Fprintf(&sb, "Definition lock_open_flags : list string := %s.\n", coqStrList(openFlags(lock)))
	fmt.Fprintf(&sb, "Definition copy_checkout_open_flags : list string := %s.\n", coqStrList(openFlags(co)))
	// mechanisms as booleans
	b := func(name string, v bool) { fmt.Fprintf(&sb, "Definition %s : bool := %v.\n", name, v) }
	cb := findFunc(sumF, "ChecksumBuffer")
	b("checksum_resets_hasher", cb != nil && has(callsIn(cb), "h.Reset"))
	unlock := findFunc(cmdF, "unlockProject")
	fatal := findFunc(cmdF, "fatal")
	mainF := findFunc(cmdF, "Main")
	b("fatal_unlocks", fatal != nil && has(callsIn(fatal), "unlockProject"))
	b("main_unlocks", mainF != nil && has(callsIn(mainF), "unlockProject"))
	b("unlock_removes_locked_path", unlock != nil && func() bool {
		ok := false
		ast.Inspect(unlock, func(x ast.Node) bool {
			if c, ok2 := x.(*ast.CallExpr); ok2 {
				if se, ok3 := c.Fun.(*ast.SelectorExpr); ok3 && se.Sel.Name == "Remove" && len(c.Args) == 1 {
					if id, ok4 := c.Args[0].(*ast.Ident); ok4 && id.Name == "lockedPath" {
						ok = true
					}
				}
			}
			return true
		})
		return ok
	}())
	stf := func(files []srcFile, recv string) bool {
		for _, sf := range files {
			for _, d := range sf.f.Decls {
				if fd, ok := d.(*ast.FuncDecl); ok && fd.Name.Name == "ToFile" {
					cs := callsIn(fd)
					return has(cs, "os.CreateTemp") && has(cs, "os.Rename") && !has(cs, "os.Create")
				}
			}
		}
		return false
	}
	b("stage_tofile_atomic", stf(stageF, "Stage"))
	b("index_tofile_atomic", stf(indexF, "Index"))
	cbytes := findFunc(cacheF, "commitBytes")
	b("commit_bytes_renames_then_chmods", cbytes != nil && func() bool {
		cs := callsIn(cbytes)
		ri, ci := -1, -1
		for i, c := range cs {
			if c == "os.Rename" && ri < 0 {
				ri = i
			}
			if c == "os.Chmod" && ci < 0 {
				ci = i
			}
		}
		return ri >= 0 && ci > ri
	}())
	// which subcommands lock how: files of src/cmd whose Run functions call prepare / lockProject
	var viaPrepare, viaLock, pullUnlocks []string
	for _, sf := range cmdF {
		base := strings.TrimSuffix(filepath.Base(sf.path), ".go")
		cs := callsIn(sf.f)
		if base == "root" {
			continue
		}
		if has(cs, "prepare") {
			viaPrepare = append(viaPrepare, base)
		}
		if has(cs, "lockProject") {
			viaLock = append(viaLock, base)
		}
		if base == "pull" && has(cs, "unlockProject") {
			pullUnlocks = append(pullUnlocks, base)
		}
	}
	sort.Strings(viaPrepare)
	sort.Strings(viaLock)
	fmt.Fprintf(&sb, "Definition cmd_files_calling_prepare : list string := %s.\n", coqStrList(viaPrepare))
	fmt.Fprintf(&sb, "Definition cmd_files_calling_lockProject : list string := %s.\n", coqStrList(viaLock))
	fmt.Fprintf(&sb, "Definition pull_unlocks_between : bool := %v.\n", len(pullUnlocks) == 1)
	prep := findFunc(cmdF, "prepare")
	b("prepare_chdirs_before_lock", prep != nil && func() bool {
		cs := callsIn(prep)
		ci, li := -1, -1
		for i, c := range cs {
			if c == "os.Chdir" && ci < 0 {
				ci = i
			}
			if c == "lockProject" && li < 0 {
				li = i
			}
		}
		return ci >= 0 && li > ci
	}())
	must(os.WriteFile(filepath.Join(o.out, "SourceFacts.v"), []byte(sb.String()), 0o644))
	s := newSummary("facts", o.seed, o.tier)
	s.Cases = 1
	s.Nontrivial = 2
	s.Rule = "source facts extracted with go/ast"
	s.Samples = append(s.Samples, sb.String())
	s.write(o.out)
}
