package main

import (
	"bytes"
	"errors"
	"fmt"
	"io"
	"os"
	"os/exec"
	"path/filepath"
	"runtime"
	"strings"
	"sync"
	"syscall"

	"github.com/kevin-hanselman/dud/src/checksum"
)

func init() { families["c14"] = runC14 }

type ev14 struct {
	Chunk []byte
	Err   int // 0 none, 1 EOF, 2 failure
}

// scriptReader plays a script of (max chunk length, error) steps over data and logs what
// it actually delivered (a Read never returns more than len(p)).
type scriptReader struct {
	data   []byte
	script [][2]int // {chunk length, err kind}
	pos    int
	log    []ev14
	yield  bool // block like a real file read would: lets another goroutine run on this P
}

var errBoom = errors.New("injected read failure")

func (r *scriptReader) Read(p []byte) (int, error) {
	if r.yield {
		runtime.Gosched()
	}
	if len(r.script) == 0 {
		// script exhausted: plain reader behaviour
		n := copy(p, r.data[r.pos:])
		r.pos += n
		if n == 0 {
			r.log = append(r.log, ev14{nil, 1})
			return 0, io.EOF
		}
		r.log = append(r.log, ev14{append([]byte{}, p[:n]...), 0})
		return n, nil
	}
	st := r.script[0]
	r.script = r.script[1:]
	want := st[0]
	if want > len(p) {
		want = len(p)
	}
	n := copy(p[:want], r.data[r.pos:])
	r.pos += n
	var err error
	kind := st[1]
	switch kind {
	case 1:
		if r.pos == len(r.data) {
			err = io.EOF
		} else {
			kind = 0
		}
	case 2:
		err = errBoom
	}
	r.log = append(r.log, ev14{append([]byte{}, p[:n]...), kind})
	return n, err
}

type case14 struct {
	id    int
	pool  []byte
	evs   []ev14
	res   *string
	data  []byte
	kind  string
	bufsz int
}

func (c *case14) coq() string {
	evs := make([]string, len(c.evs))
	for i, e := range c.evs {
		evs[i] = fmt.Sprintf("ev (%s) %d", cx(e.Chunk), e.Err)
	}
	res := "None"
	if c.res != nil {
		res = "Some (" + cxs(*c.res) + ")"
	}
	return fmt.Sprintf("{| c_id := %d; c_pool := %s; c_evs := %s; c_res := %s; c_data := %s |}",
		c.id, cx(c.pool), clist(evs), res, cx(c.data))
}

func mkScript(r *rng, n int, style int) [][2]int {
	var sc [][2]int
	switch style {
	case 0: // everything at once, EOF separately
		sc = append(sc, [2]int{n + 10, 0})
	case 1: // everything at once together with EOF
		sc = append(sc, [2]int{n + 10, 1})
	case 2: // one-byte reads
		for i := 0; i < n; i++ {
			sc = append(sc, [2]int{1, 0})
		}
	case 3: // random chunks with zero-length reads sprinkled in
		left := n
		for left > 0 {
			if r.chance(1, 4) {
				sc = append(sc, [2]int{0, 0})
				continue
			}
			c := 1 + r.intn(1+left)
			if r.chance(1, 2) {
				c = 1 + r.intn(70)
			}
			if c > left {
				c = left
			}
			k := 0
			if c == left && r.chance(1, 2) {
				k = 1
			}
			sc = append(sc, [2]int{c, k})
			left -= c
		}
		if r.chance(1, 3) {
			sc = append(sc, [2]int{0, 0})
		}
	case 4: // failure after a prefix
		left := n
		cut := r.intn(n + 1)
		for left > n-cut {
			c := 1 + r.intn(left-(n-cut))
			sc = append(sc, [2]int{c, 0})
			left -= c
		}
		sc = append(sc, [2]int{r.intn(3), 2})
	}
	return sc
}

var lens14small = []int{0, 1, 2, 3, 31, 32, 33, 55, 63, 64, 65, 127, 128, 129, 130, 191, 192, 193, 255, 256, 257, 511, 512, 513}
var lens14mid = []int{1023, 1024, 1025, 2047, 2048, 2049, 3071, 3072, 3073, 4095, 4096, 4097}
var lens14big = []int{65535, 65536, 65537}

func runC14(o *opts) {
	r := newRng(o.seed)
	s := newSummary("c14", o.seed, o.tier)
	var cases []*case14
	id := 0
	add := func(c *case14) {
		id++
		c.id = id
		cases = append(cases, c)
		s.count("kind:" + c.kind)
		switch {
		case len(c.data) == 0:
			s.count("len:0")
		case len(c.data) < 64:
			s.count("len:1-63")
		case len(c.data) <= 1024:
			s.count("len:64-1024")
		case len(c.data) < 65535:
			s.count("len:1025-65534")
		default:
			s.count("len:>=65535")
		}
	}
	bufsizes := []int{1, 3, 64, 1000, 65536}
	nSmall, nMid, nBig := 150, 16, 2
	if o.tier == "thorough" {
		nSmall, nMid, nBig = 1500, 150, 12
		bufsizes = append(bufsizes, 1<<20)
	}
	if o.n > 0 {
		nSmall = o.n
	}
	var prev []byte
	one := func(n int, kind string) {
		data := r.bytes(n)
		style := r.intn(5)
		if n > 5000 && style == 2 {
			style = 3
		}
		rd := &scriptReader{data: data, script: mkScript(r, n, style)}
		bs := bufsizes[r.intn(len(bufsizes))]
		var res string
		var err error
		if r.chance(1, 4) {
			bs = 0
			res, err = checksum.Checksum(rd)
		} else {
			res, err = checksum.ChecksumBuffer(rd, make([]byte, bs))
		}
		c := &case14{pool: prev, evs: rd.log, data: data[:rd.pos], kind: fmt.Sprintf("%s/style%d", kind, style), bufsz: bs}
		if style != 4 {
			c.data = data
		}
		if err == nil {
			c.res = &res
		}
		s.count(fmt.Sprintf("bufsize:%d", bs))
		if err != nil {
			s.count("result:error")
		} else {
			s.count("result:digest")
		}
		for _, e := range rd.log {
			if len(e.Chunk) == 0 && e.Err == 0 {
				s.count("scripts-with-zero-length-read")
				break
			}
		}
		add(c)
		prev = data
		if len(prev) > 40 {
			prev = prev[:40]
		}
	}
	// sequential: one goroutine, pooled hasher and buffer reused between computations
	for i := 0; i < nSmall; i++ {
		n := lens14small[r.intn(len(lens14small))]
		if r.chance(1, 3) {
			n = r.intn(300)
		}
		one(n, "seq")
	}
	for i := 0; i < nMid; i++ {
		one(lens14mid[r.intn(len(lens14mid))], "seq")
	}
	for i := 0; i < nBig; i++ {
		one(lens14big[r.intn(len(lens14big))], "seq")
	}
	// concurrent batches sharing the pools
	nconc := 64
	if o.tier == "thorough" {
		nconc = 640
	}
	type cres struct {
		data []byte
		log  []ev14
		res  string
		err  error
	}
	out := make([]cres, nconc)
	var wg sync.WaitGroup
	seeds := make([]*rng, 16)
	for g := range seeds {
		seeds[g] = r.fork()
	}
	// more goroutines than processors, and readers that block between chunks: goroutines take
	// turns on one P, which is when they can be handed the same pooled buffer or hasher
	defer runtime.GOMAXPROCS(runtime.GOMAXPROCS(2))
	for g := 0; g < 16; g++ {
		wg.Add(1)
		go func(g int) {
			defer wg.Done()
			rr := seeds[g]
			for k := g; k < nconc; k += 16 {
				n := rr.intn(400)
				if rr.chance(1, 4) {
					n = 1020 + rr.intn(3000)
				}
				data := rr.bytes(n)
				rd := &scriptReader{data: data, script: mkScript(rr, n, []int{0, 1, 3}[rr.intn(3)]), yield: true}
				res, err := checksum.Checksum(rd)
				out[k] = cres{data, rd.log, res, err}
			}
		}(g)
	}
	wg.Wait()
	for _, c := range out {
		cc := &case14{pool: nil, evs: c.log, data: c.data, kind: "concurrent"}
		if c.err == nil {
			res := c.res
			cc.res = &res
		}
		add(cc)
	}
	// CLI: `dud checksum` on files and on stdin, with and without -b
	if o.dud != "" {
		tmp := filepath.Join(o.out, "c14files")
		must(os.MkdirAll(tmp, 0o755))
		ncli := 12
		if o.tier == "thorough" {
			ncli = 60
		}
		type fileData struct {
			path string
			data []byte
		}
		var plain []fileData
		for i := 0; i < ncli; i++ {
			n := append(append([]int{}, lens14small...), lens14mid...)[r.intn(len(lens14small)+len(lens14mid))]
			if i == 0 {
				n = 65537
			}
			data := r.bytes(n)
			p := filepath.Join(tmp, fmt.Sprintf("f%d", i))
			must(os.WriteFile(p, data, 0o644))
			args := []string{"checksum"}
			kind := "cli-file"
			if r.chance(1, 2) {
				b := []int{1, 7, 4096, 100000}[r.intn(4)]
				args = append(args, "-b", fmt.Sprint(b))
				kind += "-b"
			}
			cmd := exec.Command(o.dud)
			var stdinFile *os.File
			switch r.intn(5) {
			case 0:
				kind = strings.Replace(kind, "file", "stdin", 1)
				cmd.Stdin = bytes.NewReader(data)
			case 1:
				// STDIN is the file itself, already read up to an offset by somebody else (as in
				// `{ head -c K >/dev/null; dud checksum; } < file`): the stream is what is LEFT
				kind = strings.Replace(kind, "file", "stdin-at-offset", 1)
				f, err := os.Open(p)
				must(err)
				off := 0
				if n > 0 {
					off = 1 + r.intn(n)
				}
				_, err = f.Seek(int64(off), 0)
				must(err)
				stdinFile = f
				cmd.Stdin = f
				data = data[off:]
			case 2:
				// a path whose size says nothing about the stream: a named pipe fed by a writer
				kind = strings.Replace(kind, "file", "fifo", 1)
				fifo := p + ".fifo"
				must(syscall.Mkfifo(fifo, 0o644))
				go func(b []byte) {
					if w, err := os.OpenFile(fifo, os.O_WRONLY, 0); err == nil {
						w.Write(b)
						w.Close()
					}
				}(data)
				args = append(args, fifo)
			default:
				args = append(args, p)
				plain = append(plain, fileData{p, data})
			}
			cmd.Args = append([]string{o.dud}, args...)
			outb, err := cmd.Output()
			if stdinFile != nil {
				stdinFile.Close()
			}
			c := &case14{evs: []ev14{{data, 1}}, data: data, kind: kind}
			if err == nil {
				// last line: "<digest>  <name>"; the root warning precedes it
				lines := strings.Split(strings.TrimSpace(string(outb)), "\n")
				f := strings.Fields(lines[len(lines)-1])
				if len(f) > 0 {
					c.res = &f[0]
				}
			}
			add(c)
		}
		// several files in ONE invocation: every line "<digest>  <path>" is that file's digest
		for i := len(plain); i < 10; i++ {
			n := append(append([]int{}, lens14small...), lens14mid...)[r.intn(len(lens14small)+len(lens14mid))]
			data := r.bytes(n)
			p := filepath.Join(tmp, fmt.Sprintf("m%d", i))
			must(os.WriteFile(p, data, 0o644))
			plain = append(plain, fileData{p, data})
		}
		for k := 0; k+1 < len(plain) && k < 12; k += 3 {
			group := plain[k:]
			if len(group) > 2+(k/3)%3 {
				group = group[:2+(k/3)%3]
			}
			args := []string{"checksum"}
			if (k/3)%2 == 1 {
				args = append(args, "-b", "4096")
			}
			for _, g := range group {
				args = append(args, g.path)
			}
			outb, err := exec.Command(o.dud, args...).Output()
			got := map[string]string{}
			if err == nil {
				for _, l := range strings.Split(string(outb), "\n") {
					for _, g := range group {
						if strings.HasSuffix(l, "  "+g.path) {
							got[g.path] = strings.TrimSpace(strings.TrimSuffix(l, g.path))
						}
					}
				}
			}
			for _, g := range group {
				c := &case14{evs: []ev14{{g.data, 1}}, data: g.data, kind: fmt.Sprintf("cli-%d-files", len(group))}
				if d, ok := got[g.path]; ok {
					d := d
					c.res = &d
				}
				add(c)
			}
		}
		// what COMMIT records for a file is the digest of its bytes too - also when the file lives on
		// another file system than the project (reached through a linked directory) and is then
		// either refused or copied: a case only when the commit succeeds
		if o.shm != "" {
			for k := 0; k < 3; k++ {
				base := filepath.Join(o.out, fmt.Sprintf("c14proj%d", k))
				ext, err := os.MkdirTemp(o.shm, "c14ext")
				if err != nil {
					break
				}
				p := newProject(o, base, "in")
				p.init()
				data := r.bytes([]int{700, 65536, 70000}[k])
				must(os.WriteFile(filepath.Join(ext, "data.bin"), data, 0o644))
				must(os.Symlink(ext, filepath.Join(p.Root, "ext")))
				must(os.WriteFile(filepath.Join(p.Root, "s.yaml"), []byte("outputs:\n  ext/data.bin: {}\n"), 0o644))
				cargs := []string{"commit"}
				if k == 2 {
					cargs = append(cargs, "--copy")
				}
				if p.dud("", "stage", "add", "s.yaml").Exit == 0 && p.dud("", cargs...).Exit == 0 {
					if rec := loadStage(filepath.Join(p.Root, "s.yaml")); rec != nil && len(rec.Out) == 1 {
						cs := rec.Out[0].Cs
						add(&case14{evs: []ev14{{data, 1}}, data: data, kind: "commit-recorded-other-filesystem", res: &cs})
					}
				}
				os.RemoveAll(ext)
				os.RemoveAll(base)
			}
		}
		os.RemoveAll(tmp)
	}
	// distinct non-trivial: distinct (data, script) pairs with at least 2 events or len>0
	seen := map[string]bool{}
	for _, c := range cases {
		if len(c.data) == 0 && len(c.evs) < 2 {
			continue
		}
		var sb strings.Builder
		sb.Write(c.data)
		for _, e := range c.evs {
			fmt.Fprintf(&sb, "|%d:%d", len(e.Chunk), e.Err)
		}
		seen[sb.String()] = true
	}
	s.Cases = len(cases)
	s.Nontrivial = len(seen)
	s.Rule = "cases = (byte string, read script as delivered, buffer size, sequential/concurrent/CLI); non-trivial = non-empty data or a script of >= 2 read events; distinct by (data, script)"
	terms := make([]string, len(cases))
	for i, c := range cases {
		terms[i] = c.coq()
		s.CaseIndex[fmt.Sprint(c.id)] = map[string]interface{}{"kind": c.kind, "len": len(c.data), "events": len(c.evs), "bufsize": c.bufsz}
	}
	for _, i := range []int{0, len(cases) / 2, len(cases) - 1} {
		c := cases[i]
		evs := []string{}
		for k, e := range c.evs {
			if k > 8 {
				evs = append(evs, "...")
				break
			}
			evs = append(evs, fmt.Sprintf("%d bytes/%s", len(e.Chunk), []string{"nil", "EOF", "error"}[e.Err]))
		}
		res := "error"
		if c.res != nil {
			res = *c.res
		}
		s.Samples = append(s.Samples, map[string]interface{}{"id": c.id, "kind": c.kind, "data_len": len(c.data), "events": evs, "bufsize": c.bufsz, "impl_result": res})
	}
	// big cases alone in a shard; small ones 40 per shard
	var small, big []string
	for i, c := range cases {
		if len(c.data) > 20000 {
			big = append(big, terms[i])
		} else {
			small = append(small, terms[i])
		}
	}
	imp := "From DudV Require Import Base.Bytes Model.Stream Corr.RunC14."
	writeShards(o.out, "c14s", imp, "case14", "run14", small, 24, s)
	writeShards(o.out, "c14b", imp, "case14", "run14", big, 1, s)
	s.write(o.out)
}
