// spike: global k-th mutating syscall monitor for multi-threaded tracees
#define _GNU_SOURCE
#include <errno.h>
#include <fcntl.h>
#include <signal.h>
#include <stdio.h>
#include <stdlib.h>
#include <string.h>
#include <sys/ptrace.h>
#include <sys/syscall.h>
#include <sys/types.h>
#include <sys/user.h>
#include <sys/wait.h>
#include <unistd.h>

#define MAXT 4096
static pid_t tids[MAXT]; static int insys[MAXT]; static int nt = 0;
static int idx_of(pid_t t) { for (int i = 0; i < nt; i++) if (tids[i] == t) return i; tids[nt] = t; insys[nt] = 0; return nt++; }

static int is_mut(struct user_regs_struct *r) {
  long nr = r->orig_rax;
  switch (nr) {
  case SYS_openat: return (r->rdx & (O_WRONLY | O_RDWR | O_CREAT | O_TRUNC)) != 0;
  case SYS_open: return (r->rsi & (O_WRONLY | O_RDWR | O_CREAT | O_TRUNC)) != 0;
  case SYS_write: return r->rdi >= 3;
  case SYS_pwrite64: case SYS_rename: case SYS_renameat: case SYS_renameat2: case SYS_unlink: case SYS_unlinkat:
  case SYS_symlink: case SYS_symlinkat: case SYS_mkdir: case SYS_mkdirat: case SYS_chmod: case SYS_fchmod:
  case SYS_fchmodat: case SYS_ftruncate: case SYS_truncate: case SYS_link: case SYS_linkat: case SYS_rmdir:
    return 1;
  }
  return 0;
}

int main(int argc, char **argv) {
  long killat = atol(argv[1]); // 0 = just count
  pid_t child = fork();
  if (child == 0) { ptrace(PTRACE_TRACEME, 0, 0, 0); raise(SIGSTOP); execvp(argv[2], argv + 2); _exit(127); }
  int st; waitpid(child, &st, 0);
  ptrace(PTRACE_SETOPTIONS, child, 0, PTRACE_O_TRACESYSGOOD | PTRACE_O_TRACECLONE | PTRACE_O_TRACEFORK | PTRACE_O_TRACEVFORK | PTRACE_O_TRACEEXEC | PTRACE_O_EXITKILL);
  ptrace(PTRACE_SYSCALL, child, 0, 0);
  long count = 0; int exitcode = -1;
  for (;;) {
    pid_t t = waitpid(-1, &st, __WALL);
    if (t < 0) break;
    if (WIFEXITED(st) || WIFSIGNALED(st)) { if (t == child) exitcode = WIFEXITED(st) ? WEXITSTATUS(st) : 128 + WTERMSIG(st); continue; }
    if (!WIFSTOPPED(st)) continue;
    int sig = WSTOPSIG(st); int i = idx_of(t);
    if (sig == (SIGTRAP | 0x80)) {
      insys[i] = !insys[i];
      if (insys[i]) {
        struct user_regs_struct r; ptrace(PTRACE_GETREGS, t, 0, &r);
        if (is_mut(&r)) {
          count++;
          if (killat && count == killat) { fprintf(stderr, "sysmon: killing at mutating syscall #%ld (nr=%lld)\n", count, r.orig_rax); kill(child, SIGKILL); }
        }
      }
      ptrace(PTRACE_SYSCALL, t, 0, 0);
    } else if (sig == SIGTRAP && (st >> 16) != 0) { ptrace(PTRACE_SYSCALL, t, 0, 0); }
    else if (sig == SIGSTOP && !insys[i] ) { ptrace(PTRACE_SYSCALL, t, 0, 0); }
    else { ptrace(PTRACE_SYSCALL, t, 0, sig); }
  }
  fprintf(stderr, "sysmon: count=%ld exit=%d\n", count, exitcode);
  return exitcode < 0 ? 1 : exitcode;
}
