// sysmon: ptrace monitor for the crash / fault checks (C03, C04, C07, C18).
// Follows every thread and child of the traced command, numbers the file-system-mutating system
// calls of the ROOT process (the dud binary itself; its thread group) in one global order, logs
// them with resolved paths, and can
//   --kill K        SIGKILL the root process at the entry of its K-th mutating call
//   --fail K ERRNO  make the root's K-th mutating call fail with ERRNO without executing it
//   --nofail PATH   never inject a failure into an unlink/rmdir of PATH (the project lock: the
//                   order of calls is not the same in every run, so the harness cannot rely on K)
// usage: sysmon [--log FILE] [--kill K | --fail K ERRNO] [--nofail PATH] -- cmd args...
// exit status: the root's exit status (128+signal if killed); the log's last line is
// "END count=<n> exit=<code>".
#define _GNU_SOURCE
#include <errno.h>
#include <fcntl.h>
#include <limits.h>
#include <signal.h>
#include <stdio.h>
#include <stdlib.h>
#include <string.h>
#include <sys/ptrace.h>
#include <sys/syscall.h>
#include <sys/types.h>
#include <sys/user.h>
#include <sys/wait.h>
#include <unistd.h>

#define MAXT 8192
static pid_t tids[MAXT];
static int insys[MAXT], inject[MAXT];
static int nt = 0;
static int idx_of(pid_t t) {
  for (int i = 0; i < nt; i++) if (tids[i] == t) return i;
  if (nt >= MAXT) { fprintf(stderr, "sysmon: too many threads\n"); exit(2); }
  tids[nt] = t; insys[nt] = 0; inject[nt] = 0; return nt++;
}

static pid_t tgid_of(pid_t t) {
  char p[64], line[256]; snprintf(p, sizeof p, "/proc/%d/status", t);
  FILE *f = fopen(p, "r"); if (!f) return -1;
  pid_t tg = -1;
  while (fgets(line, sizeof line, f)) if (sscanf(line, "Tgid: %d", &tg) == 1) break;
  fclose(f); return tg;
}

static void read_str(pid_t t, unsigned long addr, char *out, size_t max) {
  size_t n = 0; out[0] = 0;
  if (!addr) return;
  while (n + sizeof(long) < max) {
    errno = 0;
    long w = ptrace(PTRACE_PEEKDATA, t, addr + n, 0);
    if (errno) break;
    memcpy(out + n, &w, sizeof w);
    for (size_t i = 0; i < sizeof w; i++) if (out[n + i] == 0) return;
    n += sizeof w;
  }
  out[n] = 0;
}

static void fd_path(pid_t t, long fd, char *out, size_t max) {
  char p[64];
  if (fd == AT_FDCWD) snprintf(p, sizeof p, "/proc/%d/cwd", t); else snprintf(p, sizeof p, "/proc/%d/fd/%ld", t, fd);
  ssize_t n = readlink(p, out, max - 1);
  if (n < 0) n = 0;
  out[n] = 0;
}

static void resolve(pid_t t, long dirfd, unsigned long addr, char *out, size_t max) {
  char s[PATH_MAX]; read_str(t, addr, s, sizeof s);
  if (s[0] == '/') { snprintf(out, max, "%s", s); return; }
  char base[PATH_MAX]; fd_path(t, dirfd, base, sizeof base);
  snprintf(out, max, "%s/%s", base, s);
}

// returns the name of the mutating syscall or NULL; fills p1/p2
static int log_reads = 0; // --reads: read-only opens are logged too (as "ropen"; never counted, killed or failed)
static const char *classify(pid_t t, struct user_regs_struct *r, char *p1, char *p2) {
  long nr = r->orig_rax; p1[0] = p2[0] = 0;
  int wr = O_WRONLY | O_RDWR | O_CREAT | O_TRUNC | O_APPEND;
  switch (nr) {
  case SYS_openat: if (!(r->rdx & wr)) { if (!log_reads) return NULL; resolve(t, (int)r->rdi, r->rsi, p1, PATH_MAX); return "ropen"; }
    resolve(t, (int)r->rdi, r->rsi, p1, PATH_MAX);
    snprintf(p2, PATH_MAX, "flags=%s%s%s%s", (r->rdx & O_CREAT) ? "C" : "", (r->rdx & O_EXCL) ? "X" : "", (r->rdx & O_TRUNC) ? "T" : "", (r->rdx & O_APPEND) ? "A" : ""); return "open";
  case SYS_open: if (!(r->rsi & wr)) { if (!log_reads) return NULL; resolve(t, AT_FDCWD, r->rdi, p1, PATH_MAX); return "ropen"; }
    resolve(t, AT_FDCWD, r->rdi, p1, PATH_MAX);
    snprintf(p2, PATH_MAX, "flags=%s%s%s", (r->rsi & O_CREAT) ? "C" : "", (r->rsi & O_EXCL) ? "X" : "", (r->rsi & O_TRUNC) ? "T" : ""); return "open";
  case SYS_creat: resolve(t, AT_FDCWD, r->rdi, p1, PATH_MAX); snprintf(p2, PATH_MAX, "flags=CT"); return "open";
  case SYS_write: case SYS_pwrite64: case SYS_writev:
    if ((long)r->rdi < 3) return NULL; fd_path(t, r->rdi, p1, PATH_MAX);
    if (p1[0] != '/') return NULL; /* pipes, sockets */ return "write";
  case SYS_rename: resolve(t, AT_FDCWD, r->rdi, p1, PATH_MAX); resolve(t, AT_FDCWD, r->rsi, p2, PATH_MAX); return "rename";
  case SYS_renameat: case SYS_renameat2: resolve(t, (int)r->rdi, r->rsi, p1, PATH_MAX); resolve(t, (int)r->rdx, r->r10, p2, PATH_MAX); return "rename";
  case SYS_unlink: resolve(t, AT_FDCWD, r->rdi, p1, PATH_MAX); return "unlink";
  case SYS_unlinkat: resolve(t, (int)r->rdi, r->rsi, p1, PATH_MAX); return (r->rdx & AT_REMOVEDIR) ? "rmdir" : "unlink";
  case SYS_rmdir: resolve(t, AT_FDCWD, r->rdi, p1, PATH_MAX); return "rmdir";
  case SYS_symlink: read_str(t, r->rdi, p2, PATH_MAX); resolve(t, AT_FDCWD, r->rsi, p1, PATH_MAX); return "symlink";
  case SYS_symlinkat: read_str(t, r->rdi, p2, PATH_MAX); resolve(t, (int)r->rsi, r->rdx, p1, PATH_MAX); return "symlink";
  case SYS_mkdir: resolve(t, AT_FDCWD, r->rdi, p1, PATH_MAX); return "mkdir";
  case SYS_mkdirat: resolve(t, (int)r->rdi, r->rsi, p1, PATH_MAX); return "mkdir";
  case SYS_chmod: resolve(t, AT_FDCWD, r->rdi, p1, PATH_MAX); snprintf(p2, PATH_MAX, "mode=%llo", (unsigned long long)r->rsi); return "chmod";
  case SYS_fchmodat: resolve(t, (int)r->rdi, r->rsi, p1, PATH_MAX); snprintf(p2, PATH_MAX, "mode=%llo", (unsigned long long)r->rdx); return "chmod";
  case SYS_fchmod: fd_path(t, r->rdi, p1, PATH_MAX); snprintf(p2, PATH_MAX, "mode=%llo", (unsigned long long)r->rsi); return "chmod";
  case SYS_ftruncate: fd_path(t, r->rdi, p1, PATH_MAX); return "truncate";
  case SYS_truncate: resolve(t, AT_FDCWD, r->rdi, p1, PATH_MAX); return "truncate";
  case SYS_link: resolve(t, AT_FDCWD, r->rdi, p1, PATH_MAX); resolve(t, AT_FDCWD, r->rsi, p2, PATH_MAX); return "link";
  case SYS_linkat: resolve(t, (int)r->rdi, r->rsi, p1, PATH_MAX); resolve(t, (int)r->rdx, r->r10, p2, PATH_MAX); return "link";
  }
  return NULL;
}

int main(int argc, char **argv) {
  long killat = 0, failat = 0; int failerrno = EIO; const char *logpath = NULL; const char *nofail = NULL; int a = 1;
  while (a < argc && strcmp(argv[a], "--")) {
    if (!strcmp(argv[a], "--log") && a + 1 < argc) { logpath = argv[a + 1]; a += 2; }
    else if (!strcmp(argv[a], "--kill") && a + 1 < argc) { killat = atol(argv[a + 1]); a += 2; }
    else if (!strcmp(argv[a], "--nofail") && a + 1 < argc) { nofail = argv[a + 1]; a += 2; }
    else if (!strcmp(argv[a], "--reads")) { log_reads = 1; a += 1; }
    else if (!strcmp(argv[a], "--fail") && a + 2 < argc) { failat = atol(argv[a + 1]); failerrno = atoi(argv[a + 2]); a += 3; }
    else { fprintf(stderr, "sysmon: bad argument %s\n", argv[a]); return 2; }
  }
  if (a >= argc - 0 || strcmp(argv[a], "--")) { fprintf(stderr, "usage: sysmon [--log F] [--kill K | --fail K ERRNO] -- cmd...\n"); return 2; }
  a++;
  FILE *lg = logpath ? fopen(logpath, "w") : NULL;
  pid_t child = fork();
  if (child == 0) { ptrace(PTRACE_TRACEME, 0, 0, 0); raise(SIGSTOP); execvp(argv[a], argv + a); _exit(127); }
  int st; waitpid(child, &st, 0);
  ptrace(PTRACE_SETOPTIONS, child, 0, PTRACE_O_TRACESYSGOOD | PTRACE_O_TRACECLONE | PTRACE_O_TRACEFORK | PTRACE_O_TRACEVFORK | PTRACE_O_TRACEEXEC | PTRACE_O_EXITKILL);
  ptrace(PTRACE_SYSCALL, child, 0, 0);
  long count = 0; int exitcode = -1; int killed = 0;
  static char p1[PATH_MAX], p2[PATH_MAX];
  for (;;) {
    pid_t t = waitpid(-1, &st, __WALL);
    if (t < 0) break;
    if (WIFEXITED(st) || WIFSIGNALED(st)) { if (t == child) exitcode = WIFEXITED(st) ? WEXITSTATUS(st) : 128 + WTERMSIG(st); continue; }
    if (!WIFSTOPPED(st)) continue;
    int sig = WSTOPSIG(st); int i = idx_of(t);
    if (sig == (SIGTRAP | 0x80)) {
      insys[i] = !insys[i];
      struct user_regs_struct r;
      if (insys[i]) {
        if (ptrace(PTRACE_GETREGS, t, 0, &r) == 0) {
          const char *name = classify(t, &r, p1, p2);
          if (name && !strcmp(name, "ropen")) {
            if (lg) { fprintf(lg, "0\t%s\tropen\t%s\t\n", tgid_of(t) == child ? "ROOT" : "CHILD", p1); fflush(lg); }
          } else if (name) {
            int root = tgid_of(t) == child;
            if (root) count++;
            if (lg) { fprintf(lg, "%ld\t%s\t%s\t%s\t%s\n", root ? count : 0, root ? "ROOT" : "CHILD", name, p1, p2); fflush(lg); }
            if (root && killat && count == killat && !killed) {
              killed = 1;
              if (lg) { fprintf(lg, "KILL at %ld\n", count); fflush(lg); }
              kill(child, SIGKILL);
              for (int j = 0; j < nt; j++) if (tids[j] != child) kill(tids[j], SIGKILL);
            }
            if (root && failat && count == failat && nofail && !strcmp(p1, nofail) && (!strcmp(name, "unlink") || !strcmp(name, "rmdir"))) {
              if (lg) { fprintf(lg, "NOFAIL at %ld\n", count); fflush(lg); }
            } else if (root && failat && count == failat) {
              inject[i] = 1; r.orig_rax = (unsigned long long)-1;
              ptrace(PTRACE_SETREGS, t, 0, &r);
              if (lg) { fprintf(lg, "FAIL at %ld errno=%d\n", count, failerrno); fflush(lg); }
            }
          }
        }
      } else if (inject[i]) {
        inject[i] = 0;
        if (ptrace(PTRACE_GETREGS, t, 0, &r) == 0) { r.rax = (unsigned long long)(long)(-failerrno); ptrace(PTRACE_SETREGS, t, 0, &r); }
      }
      ptrace(PTRACE_SYSCALL, t, 0, 0);
    } else if (sig == SIGTRAP && (st >> 16) != 0) { ptrace(PTRACE_SYSCALL, t, 0, 0); }
    else if (sig == SIGSTOP && !insys[i]) { ptrace(PTRACE_SYSCALL, t, 0, 0); }
    else { ptrace(PTRACE_SYSCALL, t, 0, sig); }
  }
  if (lg) { fprintf(lg, "END count=%ld exit=%d\n", count, exitcode); fclose(lg); }
  return exitcode < 0 ? 1 : exitcode;
}
