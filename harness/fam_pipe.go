package main

// Family "pipe" (C08, C09, parts of C07): pipelines of stages whose commands are
// `rm -f dst; cat srcs > dst; echo <stage> >> .runlog`, DAGs and cyclic graphs, target subsets,
// --single-stage, histories of {edit source, edit definition, damage output, run, commit}.

import (
	"fmt"
	"os"
	"path/filepath"
	"sort"
	"strings"
)

func init() { families["pipe"] = runPipe }

type pstage struct {
	file   string
	ins    []string // artifact paths
	srcs   []string // files the command reads (inputs, possibly nested inside a dir input)
	out    string   // artifact path of the output
	outDir bool
	dst    string // file the command writes
	noCmd  bool
	static string // a second file inside a directory output that the command leaves alone
	skip   bool   // the output is skip-cache (kept out of the cache, e.g. a metrics file)
	norec  bool   // the directory output is non-recursive (only the files directly inside are tracked)
}

type pipeline struct {
	stages  []*pstage
	sources []string
	cyclic  bool
	sink    string // a stage that only consumes the last stage's file: inputs, a command, no outputs
	sinkIn  string
}

// genDAG builds a random DAG: stage i may consume sources and outputs of stages < i.
func genDAG(r *rng, n int, s *summary) *pipeline {
	pl := &pipeline{}
	nsrc := 1 + r.intn(2)
	for i := 0; i < nsrc; i++ {
		pl.sources = append(pl.sources, fmt.Sprintf("src%d.txt", i))
	}
	names := []string{"a.yaml", "b.yaml", "c.yaml", "st/d.yaml", "e.yaml", "f.yaml", "g.yaml", "h.yaml"}
	r2 := r.fork()
	perm := r2.intn(len(names))
	for i := 0; i < n; i++ {
		st := &pstage{file: names[(i+perm)%len(names)]}
		if r.chance(1, 2) {
			st.outDir = true
			st.out = fmt.Sprintf("out%d/data", i)
			if r.chance(1, 2) {
				st.out = fmt.Sprintf("d%d", i)
			}
			st.dst = st.out + "/f.txt"
			if r.chance(1, 3) {
				st.dst = st.out + "/deep/er/f.txt"
			} else if r.chance(1, 3) {
				// non-recursive (possibly at a nested path): the file written directly inside is tracked
				// and owned, nothing below is
				st.norec = true
				s.count("output:non-recursive-dir")
			}
		} else {
			st.out = fmt.Sprintf("o%d.txt", i)
			st.dst = st.out
			if r.chance(1, 4) {
				st.skip = true
				s.count("output:skip-cache")
			}
		}
		// inputs
		k := 0
		for j := 0; j < i; j++ {
			if r.chance(1, 2) || (j == i-1 && r.chance(2, 3)) {
				up := pl.stages[j]
				if up.outDir && r.chance(2, 3) {
					// an input nested inside a directory output (owner found through an ancestor)
					st.ins = append(st.ins, up.dst)
					s.count("input:nested-in-dir-output")
					if r.chance(1, 2) {
						// a second input owned by the SAME upstream stage
						if up.static == "" {
							up.static = up.out + "/static.txt"
						}
						st.ins = append(st.ins, up.static)
						s.count("input:two-inputs-from-one-upstream-stage")
					}
				} else if up.outDir {
					st.ins = append(st.ins, up.out)
					s.count("input:dir-output")
				} else {
					st.ins = append(st.ins, up.out)
				}
				st.srcs = append(st.srcs, up.dst)
				k++
			}
		}
		if k == 0 || r.chance(1, 3) {
			src := pl.sources[r.intn(len(pl.sources))]
			st.ins = append(st.ins, src)
			st.srcs = append(st.srcs, src)
		}
		if i > 0 && r.chance(1, 3) {
			// a plain input in a directory whose NAME merely starts with an earlier output's path
			// (string prefix, not path prefix): it has no owner
			up := pl.stages[r.intn(i)]
			sib := up.out + "_raw/in.txt"
			if !strings.Contains(up.out, ".") {
				pl.sources = append(pl.sources, sib)
				st.ins = append(st.ins, sib)
				st.srcs = append(st.srcs, sib)
				s.count("input:sibling-with-output-name-as-string-prefix")
			}
		}
		if k == 0 && r.chance(1, 5) {
			// a stage with a command and no inputs: always runs
			st.ins, st.srcs = nil, nil
			s.count("stage:no-inputs")
		}
		st.ins = dedup(st.ins)
		pl.stages = append(pl.stages, st)
	}
	if n >= 2 && r.chance(1, 2) {
		// a sink: only consumes what the last stage writes (a report, an upload)
		pl.sink = "zz_sink.yaml"
		pl.sinkIn = pl.stages[n-1].dst
	}
	return pl
}

// a stage with a command and no inputs (always runs) whose output another stage consumes
func (pl *pipeline) sourceWithDownstream() bool {
	for _, a := range pl.stages {
		if len(a.ins) != 0 || a.noCmd {
			continue
		}
		for _, b := range pl.stages {
			for _, in := range b.ins {
				if in == a.out || in == a.dst {
					return true
				}
			}
		}
	}
	return false
}

func dedup(l []string) []string {
	m := map[string]bool{}
	var out []string
	for _, x := range l {
		if !m[x] {
			m[x] = true
			out = append(out, x)
		}
	}
	sort.Strings(out)
	return out
}

// genCycle: a k-cycle, optionally behind a DAG prefix (a stage that consumes a cycle member).
func genCycle(r *rng, k int, prefix bool) *pipeline {
	pl := &pipeline{cyclic: true, sources: []string{"src0.txt"}}
	names := []string{"a.yaml", "b.yaml", "c.yaml", "d.yaml"}
	skipEdges := r.chance(1, 2) // the cycle may run through skip-cache outputs
	for i := 0; i < k; i++ {
		st := &pstage{file: names[i], out: fmt.Sprintf("o%d.txt", i), skip: skipEdges}
		st.dst = st.out
		prev := fmt.Sprintf("o%d.txt", (i+k-1)%k)
		st.ins = []string{prev}
		st.srcs = []string{prev}
		pl.stages = append(pl.stages, st)
	}
	if prefix {
		st := &pstage{file: "z_down.yaml", out: "down.txt", dst: "down.txt", ins: []string{"o0.txt", "src0.txt"}, srcs: []string{"o0.txt", "src0.txt"}}
		pl.stages = append(pl.stages, st)
		up := &pstage{file: "y_clean.yaml", out: "clean.txt", dst: "clean.txt", ins: []string{"src0.txt"}, srcs: []string{"src0.txt"}}
		pl.stages = append(pl.stages, up)
	}
	return pl
}

func (st *pstage) sem() CmdSem {
	return CmdSem{Stage: st.file, Srcs: st.srcs, Dst: st.dst, Tag: st.file}
}

func (st *pstage) rec(cmdSuffix string) *StageRec {
	rec := &StageRec{}
	if !st.noCmd {
		rec.Cmd = st.sem().shell() + cmdSuffix
	}
	for _, in := range st.ins {
		// a directory-valued input is declared is-dir
		rec.In = append(rec.In, Art{Path: in})
	}
	rec.Out = []Art{{Path: st.out, IsDir: st.outDir, Skip: st.skip, NoRec: st.norec}}
	return rec
}

func runPipe(o *opts) {
	r := newRng(o.seed)
	s := newSummary("pipe", o.seed, o.tier)
	n := 28
	if o.tier == "thorough" {
		n = 300
	}
	if o.n > 0 {
		n = o.n
	}
	var all []*Transition
	distinct := map[string]bool{}
	for i := 0; i < n; i++ {
		rr := r.fork()
		var pl *pipeline
		if i%5 == 4 {
			pl = genCycle(rr, 2+rr.intn(2), rr.chance(1, 2))
			s.count("graph:cyclic")
		} else {
			sz := 2 + rr.intn(4)
			if o.tier == "thorough" {
				sz = 2 + rr.intn(7)
			}
			pl = genDAG(rr, sz, s)
			s.count(fmt.Sprintf("graph:dag-%d", sz))
		}
		ts := onePipe(o, rr, s, i, pl, distinct)
		all = append(all, ts...)
	}
	// a stage whose verdict may change WITHIN one run: bundle reads the un-owned directory src/, in which
	// codegen (no inputs: always runs) rewrites src/gen.txt. Whatever dud decides about bundle, it decides
	// once, and report (which reads bundle's output) never executes before bundle does. (An input
	// directory holding another stage's output is outside the model's well-formedness premise:
	// statements only, observation 9.)
	for k := 0; k < 2; k++ {
		base := scenarioDir(o, "pipe", 9500+k)
		p := newProject(o, base, []string{"in", "abs"}[k])
		p.init()
		must(os.MkdirAll(filepath.Join(p.Root, "src"), 0o755))
		must(os.WriteFile(filepath.Join(p.Root, "src", "main.txt"), []byte("main\n"), 0o644))
		must(os.WriteFile(filepath.Join(p.Root, "params.txt"), []byte("alpha=1\n"), 0o644))
		must(os.WriteFile(filepath.Join(p.Root, "counter"), nil, 0o644))
		p.writeStage("codegen.yaml", &StageRec{Cmd: "echo codegen.yaml >> .runlog; echo x >> counter; rm -f src/gen.txt; wc -l < counter > src/gen.txt", Out: []Art{{Path: "src/gen.txt"}}})
		p.writeStage("bundle.yaml", &StageRec{Cmd: "echo bundle.yaml >> .runlog; rm -f bundle.txt; cat src/main.txt src/gen.txt > bundle.txt", In: []Art{{Path: "src", IsDir: true}}, Out: []Art{{Path: "bundle.txt"}}})
		p.writeStage("report.yaml", &StageRec{Cmd: "echo report.yaml >> .runlog; rm -f report.txt; cat bundle.txt params.txt > report.txt", In: []Art{{Path: "bundle.txt"}, {Path: "params.txt"}}, Out: []Art{{Path: "report.txt"}}})
		if res := p.dud("", "stage", "add", "codegen.yaml", "bundle.yaml", "report.yaml"); res.Exit != 0 {
			continue // refused: nothing to observe
		}
		step := func(c Cmd, what string) {
			t, _ := p.do(c, nil, want(18, 13), nil, nil)
			t.Obs = append(t.Obs, 9)
			t.Info["scenario"] = 9500 + k
			t.Info["step"] = what
			t.Info["stages"] = 3
			t.Info["cyclic"] = false
			all = append(all, t)
		}
		step(Cmd{Kind: "run", Targets: []string{"codegen.yaml", "bundle.yaml", "report.yaml"}}, "first run, generator first")
		cargs := []string{"commit"}
		if k == 0 {
			cargs = append(cargs, "--copy")
		}
		p.dud("", cargs...)
		must(os.WriteFile(filepath.Join(p.Root, "params.txt"), []byte("alpha=2\n"), 0o644))
		step(Cmd{Kind: "run", Targets: []string{"report.yaml", "codegen.yaml", "bundle.yaml"}}, "run naming the consumer first, then the generator, then the stage in between")
		step(Cmd{Kind: "run"}, "run of everything")
		s.count("graph:verdict-changes-within-a-run")
		distinct[fmt.Sprintf("vc%d", k)] = true
		rmrf(base)
		if p.CacheCfg != "" && filepath.Dir(p.CacheDir) != base {
			rmrf(filepath.Dir(p.CacheDir))
		}
	}
	s.Cases = len(all)
	s.Nontrivial = len(distinct)
	s.Rule = "pipelines (random DAGs incl. diamonds, skip connections, directory outputs with inputs nested inside them, stages without inputs; 2-/3-cycles, also behind a DAG prefix) x histories over {edit source, edit definition, damage/delete output, run [targets] [--single-stage], commit, status, checkout, graph}; one case = one dud command; non-trivial = a run/commit on a pipeline of >= 2 dependent stages; distinct by (graph, pre-state, command)"
	if len(all) > 0 {
		s.Samples = append(s.Samples, all[len(all)/3].Info, all[2*len(all)/3].Info)
	}
	emitTransitions(o, "pipe", all, s, 6)
	s.write(o.out)
	rmrf(filepath.Join(o.out, "w"))
}

func onePipe(o *opts, r *rng, s *summary, i int, pl *pipeline, distinct map[string]bool) []*Transition {
	base := scenarioDir(o, "pipe", i)
	defer rmrf(base)
	p := newProject(o, base, []string{"in", "abs"}[r.intn(2)])
	p.init()
	for k, src := range pl.sources {
		must(os.MkdirAll(filepath.Dir(filepath.Join(p.Root, src)), 0o755))
		must(os.WriteFile(filepath.Join(p.Root, src), []byte(fmt.Sprintf("source%d-v0\n", k)), 0o644))
	}
	for _, st := range pl.stages {
		if st.static != "" {
			must(os.MkdirAll(filepath.Dir(filepath.Join(p.Root, st.static)), 0o755))
			must(os.WriteFile(filepath.Join(p.Root, st.static), []byte("static part of "+st.out+"\n"), 0o644))
		}
	}
	var sems []CmdSem
	var files []string
	for _, st := range pl.stages {
		p.writeStage(st.file, st.rec(""))
		sems = append(sems, st.sem())
		files = append(files, st.file)
	}
	if pl.sink != "" {
		// (its command reads the input and leaves the project alone, apart from the execution log)
		p.writeStage(pl.sink, &StageRec{Cmd: "cat '" + pl.sinkIn + "' > /dev/null && echo " + pl.sink + " >> .runlog", In: []Art{{Path: pl.sinkIn}}})
		files = append(files, pl.sink)
		s.count("stage:sink-without-outputs")
	}
	// a remote, so that push / fetch do their traversal (and, with the stand-in rclone, their work)
	if !pl.cyclic {
		cfg := filepath.Join(p.Root, ".dud", "config.yaml")
		f, err := os.OpenFile(cfg, os.O_APPEND|os.O_WRONLY, 0o644)
		must(err)
		fmt.Fprintf(f, "remote: %s\n", filepath.Join(p.Base, "remote"))
		f.Close()
		must(os.MkdirAll(filepath.Join(p.Base, "remote"), 0o755))
	}
	sort.Strings(files)
	var ts []*Transition
	add := func(t *Transition, step string) {
		t.Info["scenario"] = i
		t.Info["step"] = step
		t.Info["stages"] = len(pl.stages)
		t.Info["cyclic"] = pl.cyclic
		if pl.sourceWithDownstream() {
			t.Info["downstream_of_a_stage_without_inputs"] = true
		}
		ts = append(ts, t)
		if len(pl.stages) >= 2 {
			distinct[fmt.Sprintf("%d|%s|%s", i, step, t.Pre.Root.coq())] = true
		}
	}
	t, w := p.do(Cmd{Kind: "stageadd", Targets: files}, sems, want(11), nil, nil)
	add(t, "stage add")
	if !t.OK {
		return ts
	}
	if pl.cyclic {
		// every traversal refuses; nothing on the cycle executes; nothing changes
		cmds := []Cmd{{Kind: "run"}, {Kind: "commit"}, {Kind: "checkout"}, {Kind: "status"}, {Kind: "graph"}, {Kind: "push"}, {Kind: "fetch"},
			// without stage arguments --single-stage is ignored: the whole (cyclic) index is walked
			{Kind: "checkout", Single: true, Copy: true}, {Kind: "push", Single: true}, {Kind: "fetch", Single: true}}
		// a remote so that push/fetch get as far as the traversal
		cfg := filepath.Join(p.Root, ".dud", "config.yaml")
		f, err := os.OpenFile(cfg, os.O_APPEND|os.O_WRONLY, 0o644)
		must(err)
		fmt.Fprintf(f, "remote: %s\n", filepath.Join(p.Base, "remote"))
		f.Close()
		must(os.MkdirAll(filepath.Join(p.Base, "remote"), 0o755))
		for _, c := range cmds {
			if len(pl.stages) > 3 && r.chance(1, 2) && !c.Single {
				c.Targets = []string{"z_down.yaml"}
			}
			t, w = p.do(c, sems, want(5, 23, 8, 9, 13), nil, nil)
			add(t, c.Kind+" on a cyclic graph")
		}
		// --single-stage on a member is allowed to run it (nothing upstream is visited)
		return ts
	}
	_ = w
	// history
	steps := 5 + r.intn(4)
	if o.tier == "thorough" {
		steps = 6 + r.intn(8)
	}
	version := 0
	lastFullRun := false
	blessedStale := false // a commit was made without a run before it: stale outputs may be on record
	for k := 0; k < steps; k++ {
		switch op := r.intn(10); {
		case op < 4: // run
			c := Cmd{Kind: "run"}
			if r.chance(1, 3) {
				c.Targets = []string{pl.stages[r.intn(len(pl.stages))].file}
				if r.chance(1, 3) {
					c.Single = true
				}
			} else if len(pl.stages) >= 2 && r.chance(1, 4) {
				// several stages named: in pipeline order (what a user who knows the pipeline types) or
				// shuffled; with --single-stage the order given IS the order of execution
				for _, st := range pl.stages {
					if r.chance(2, 3) {
						c.Targets = append(c.Targets, st.file)
					}
				}
				if len(c.Targets) < 2 {
					c.Targets = []string{pl.stages[0].file, pl.stages[len(pl.stages)-1].file}
				}
				if r.chance(1, 3) {
					for i := len(c.Targets) - 1; i > 0; i-- {
						j := r.intn(i + 1)
						c.Targets[i], c.Targets[j] = c.Targets[j], c.Targets[i]
					}
				}
				c.Single = r.chance(2, 3)
			}
			sp := want(18, 23, 8, 9, 13)
			if !c.Single {
				sp = append(sp, want(19)...)
			}
			if lastFullRun && len(c.Targets) == 0 {
				_ = sp
			}
			t, w = p.do(c, sems, sp, nil, nil)
			add(t, "run")
			s.count(fmt.Sprintf("run targets:%d single:%v ok:%v", len(c.Targets), c.Single, t.OK))
			lastFullRun = t.OK && len(c.Targets) == 0
		case op < 6: // commit right after a successful full run
			if !lastFullRun {
				t, w = p.do(Cmd{Kind: "run"}, sems, want(18, 19, 23, 8, 9), nil, nil)
				add(t, "run")
				if !t.OK {
					continue
				}
			}
			t, w = p.do(Cmd{Kind: "commit", Copy: r.chance(1, 3)}, sems, want(11, 1, 13), nil, nil)
			add(t, "commit after run")
			s.count("commit")
			if t.OK {
				// a run straight after run; commit executes no stage that has inputs
				t, w = p.do(Cmd{Kind: "run"}, sems, want(18, 19, 22, 23, 8, 9), nil, nil)
				add(t, "run after run;commit")
			}
			lastFullRun = true
		case op < 7: // the D8 shape: edit; run -s a; commit a; run
			st := pl.stages[0]
			version++
			must(os.WriteFile(filepath.Join(p.Root, pl.sources[0]), []byte(fmt.Sprintf("source0-v%d\n", version)), 0o644))
			onlySources := true
			for _, in := range st.ins {
				if !strings.HasPrefix(in, "src") {
					onlySources = false
				}
			}
			if !onlySources {
				continue
			}
			t, w = p.do(Cmd{Kind: "run", Targets: []string{st.file}, Single: true}, sems, want(18, 23, 8, 9), nil, nil)
			add(t, "run -s first stage")
			if !t.OK {
				continue
			}
			t, w = p.do(Cmd{Kind: "commit", Targets: []string{st.file}}, sems, want(11, 1, 27), nil, nil)
			add(t, "commit first stage")
			t, w = p.do(Cmd{Kind: "run"}, sems, want(18, 19, 23, 8, 9), nil, nil)
			add(t, "run after partial run+commit")
			s.count("history:run-s;commit;run")
			lastFullRun = t.OK
		case op < 8: // edit a source
			version++
			k := r.intn(len(pl.sources))
			must(os.WriteFile(filepath.Join(p.Root, pl.sources[k]), []byte(fmt.Sprintf("source%d-v%d\n", k, version)), 0o644))
			s.count("edit:source")
			lastFullRun = false
		case op < 9: // edit a stage definition (the command text; same effect)
			st := pl.stages[r.intn(len(pl.stages))]
			cur := loadStage(filepath.Join(p.Root, st.file))
			if cur == nil {
				continue
			}
			version++
			nr := st.rec(fmt.Sprintf(" # v%d", version))
			if r.chance(1, 3) {
				// a change of white space only, inside the command (where it may matter to sh)
				nr = st.rec("")
				nr.Cmd = strings.Replace(nr.Cmd, " && ", " &&"+strings.Repeat(" ", 2+version%3), 1)
				s.count("edit:definition-whitespace-only")
			}
			nr.Cs = cur.Cs
			for j := range nr.In {
				for _, a := range cur.In {
					if a.Path == nr.In[j].Path {
						nr.In[j].Cs = a.Cs
					}
				}
			}
			for j := range nr.Out {
				for _, a := range cur.Out {
					if a.Path == nr.Out[j].Path {
						nr.Out[j].Cs = a.Cs
					}
				}
			}
			p.writeStage(st.file, nr)
			s.count("edit:definition")
			lastFullRun = false
		default: // damage or delete an output
			st := pl.stages[r.intn(len(pl.stages))]
			fp := filepath.Join(p.Root, st.dst)
			if r.chance(1, 2) {
				os.Remove(fp)
				s.count("edit:delete-output")
			} else if b, err := os.ReadFile(fp); err == nil && len(b) > 0 && r.chance(1, 2) {
				// damage that keeps the size: only the last byte differs
				nb := append([]byte{}, b...)
				nb[len(nb)-1] ^= 0x01
				os.Remove(fp)
				must(os.WriteFile(fp, nb, 0o644))
				s.count("edit:damage-output-same-size")
			} else if _, err := os.Lstat(fp); err == nil {
				os.Remove(fp)
				must(os.WriteFile(fp, []byte("damaged\n"), 0o644))
				s.count("edit:damage-output")
			}
			lastFullRun = false
		}
		if k == steps-1 && r.chance(1, 2) {
			// edit a source; run and commit only an upstream stage; then a full run must bring
			// everything downstream up to date
			var ups []*pstage
			for _, a := range pl.stages {
				only := len(a.ins) > 0
				for _, in := range a.ins {
					if !strings.HasPrefix(in, "src") {
						only = false
					}
				}
				down := false
				for _, b := range pl.stages {
					for _, in := range b.ins {
						if in == a.out || in == a.dst {
							down = true
						}
					}
				}
				if only && down {
					ups = append(ups, a)
				}
			}
			if len(ups) > 0 {
				a := ups[r.intn(len(ups))]
				// first bring the project to a committed, consistent state
				t, w = p.do(Cmd{Kind: "run"}, sems, want(18, 19, 23, 8, 9), nil, nil)
				add(t, "run")
				if t.OK {
					t, w = p.do(Cmd{Kind: "commit"}, sems, want(11, 1), nil, nil)
					add(t, "commit after run")
				}
				if t.OK {
					version++
					for _, in := range a.ins {
						must(os.WriteFile(filepath.Join(p.Root, in), []byte(fmt.Sprintf("%s-v%d\n", in, version)), 0o644))
					}
					t, w = p.do(Cmd{Kind: "run", Targets: []string{a.file}}, sems, want(18, 23, 8, 9), nil, nil)
					add(t, "run upstream stage only")
					if t.OK {
						t, w = p.do(Cmd{Kind: "commit", Targets: []string{a.file}}, sems, want(11, 1, 27), nil, nil)
						add(t, "commit upstream stage only")
						if t.OK && r.chance(1, 2) {
							// the source changes once more and only a DOWNSTREAM stage is asked for: the
							// upstream stage must run first although the records of the two disagree
							version++
							for _, in := range a.ins {
								must(os.WriteFile(filepath.Join(p.Root, in), []byte(fmt.Sprintf("%s-v%d\n", in, version)), 0o644))
							}
							for _, b := range pl.stages {
								isDown := false
								for _, in := range b.ins {
									if in == a.out || in == a.dst {
										isDown = true
									}
								}
								if isDown {
									t, w = p.do(Cmd{Kind: "run", Targets: []string{b.file}}, sems, want(18, 19, 23, 8, 9), nil, nil)
									add(t, "run a downstream target after its upstream was committed and the source edited again")
									s.count("history:edit;run up;commit up;edit;run down")
									break
								}
							}
						}
						t, w = p.do(Cmd{Kind: "run"}, sems, want(18, 19, 23, 8, 9), nil, nil)
						add(t, "run after upstream was regenerated and committed")
						s.count("history:edit;run up;commit up;run")
					}
				}
			}
		}
		if k == steps-1 {
			// two stages share a plain input: edit it, commit only one of them, ask for the status of both
			var sharers []*pstage
			shared := ""
			for _, src := range pl.sources {
				var us []*pstage
				for _, a := range pl.stages {
					for _, in := range a.ins {
						if in == src {
							us = append(us, a)
						}
					}
				}
				if len(us) >= 2 {
					sharers, shared = us, src
				}
			}
			if shared != "" {
				version++
				must(os.WriteFile(filepath.Join(p.Root, shared), []byte(fmt.Sprintf("shared-v%d\n", version)), 0o644))
				a := sharers[r.intn(len(sharers))]
				t, w = p.do(Cmd{Kind: "commit", Targets: []string{a.file}}, sems, want(1, 13), nil, nil)
				add(t, "commit one of two stages sharing a plain input")
				blessedStale = true
				t, w = p.do(Cmd{Kind: "status"}, sems, want(2, 6), nil, nil)
				add(t, "status of stages sharing a plain input committed at different times")
				s.count("history:shared-input;commit one;status")
				// one run that visits the freshly committed sharer first and the other one after it:
				// whether the shared file is up to date is a question about each stage's OWN record
				for _, b := range sharers {
					if b != a {
						t, w = p.do(Cmd{Kind: "run", Targets: []string{a.file, b.file}}, sems, want(18, 23, 8, 9, 13), nil, nil)
						add(t, "run of both sharers, the one just committed first")
						break
					}
				}
			}
		}
		if r.chance(1, 6) {
			c := Cmd{Kind: []string{"status", "status", "graph"}[r.intn(3)]}
			sp := want(2)
			if c.Kind == "status" {
				// what it prints is checked per stage against the stage's OWN records (two stages may
				// share a plain input and have committed it at different times)
				sp = want(2, 6)
			}
			t, w = p.do(c, sems, sp, nil, nil)
			add(t, c.Kind)
		}
		if r.chance(1, 4) {
			// a command on a proper subset: every other stage's file and artifacts stay untouched
			st := pl.stages[r.intn(len(pl.stages))]
			kinds := []string{"checkout", "status"}
			if lastFullRun {
				// commits are made only straight after successful runs (the premise of the
				// consistency clause): a commit of stale outputs would bless them
				kinds = append(kinds, "commit", "commit")
			}
			c := Cmd{Kind: kinds[r.intn(len(kinds))], Targets: []string{st.file}}
			t, w = p.do(c, sems, want(27, 13), nil, nil)
			add(t, c.Kind+" of one stage")
			s.count("targeted:" + c.Kind)
		}
	}
	// every source edited, then all stages named in pipeline order with --single-stage: they execute in
	// exactly that order (their file names sort differently)
	if len(pl.stages) >= 2 {
		version++
		for k := range pl.sources {
			must(os.WriteFile(filepath.Join(p.Root, pl.sources[k]), []byte(fmt.Sprintf("source%d-v%d\n", k, version)), 0o644))
		}
		var inOrder []string
		for _, st := range pl.stages {
			inOrder = append(inOrder, st.file)
		}
		// (no consistency claim: C09 speaks of recursive runs; with --single-stage a stage does not
		// look at what happened upstream of it)
		t, w = p.do(Cmd{Kind: "run", Targets: inOrder, Single: true}, sems, want(18, 23, 13), nil, nil)
		add(t, "run --single-stage of every stage in pipeline order")
		s.count("history:run -s all-in-order")
	}
	// commit a downstream target straight after a full run (its upstream stages are committed with
	// it and their stage files written), lose every cached artifact, check the target out again
	fsp := want(18, 19, 23, 13)
	if blessedStale {
		fsp = want(18, 23, 13) // the consistency clause presupposes commits only after runs
	}
	t, w = p.do(Cmd{Kind: "run"}, sems, fsp, nil, nil)
	add(t, "final run")
	if t.OK {
		ref := logicalRoot(w) // links followed: what the files say, whatever is a link by now
		target := pl.stages[len(pl.stages)-1]
		ctargets := []string{target.file}
		if r.chance(1, 2) {
			// name an upstream stage of the target first: the target's records of its inputs must be
			// refreshed all the same, whatever was committed earlier in this invocation
			for _, up := range pl.stages {
				for _, in := range target.ins {
					if up != target && (in == up.out || in == up.dst || in == up.static) {
						ctargets = []string{up.file, target.file}
					}
				}
			}
			if len(ctargets) == 2 {
				s.count("commit:owner-named-before-consumer")
			}
		}
		t, w = p.do(Cmd{Kind: "commit", Targets: ctargets, Copy: r.chance(1, 3)}, sems, want(11, 1, 27, 13, 7), nil, nil)
		add(t, "commit of the last stage after the final run")
		if t.OK {
			// right after a successful commit everything in its scope is reported up to date
			t, w = p.do(Cmd{Kind: "status", Targets: []string{target.file}}, sems, want(2, 6, 15, 13), nil, nil)
			add(t, "status of the last stage right after its commit")
		}
		if t.OK {
			// push and fetch of that target (of the sink behind it, if there is one): the stages
			// announced are exactly the target and everything upstream of it, each once, owners first;
			// with --single-stage exactly the target
			tgt := target.file
			if pl.sink != "" {
				tgt = pl.sink
			}
			for _, c := range []Cmd{{Kind: "push", Targets: []string{tgt}}, {Kind: "fetch", Targets: []string{tgt}}, {Kind: []string{"push", "fetch"}[r.intn(2)], Targets: []string{tgt}, Single: true}} {
				tp, _ := p.do(c, sems, want(11, 28, 8, 9, 13), nil, nil)
				add(tp, c.Kind+" of the last stage after its commit")
				s.count("transfer:" + c.Kind)
			}
		}
		if t.OK {
			for _, st := range pl.stages {
				if !st.skip {
					rmrf(filepath.Join(p.Root, strings.Split(st.out, "/")[0]))
				}
			}
			t, w = p.do(Cmd{Kind: "checkout", Targets: []string{target.file}, Copy: r.chance(1, 2)}, sems, want(11, 3, 27, 13), ref, nil)
			add(t, "checkout of the last stage after losing the artifacts")
			s.count("history:run;commit last;lose artifacts;checkout last")
		}
	}
	return ts
}

// logicalRoot returns the workspace tree with every link into the cache replaced by the bytes of the
// object it points to.
func logicalRoot(w *World) *Node {
	objs := map[string][]byte{}
	for _, o := range w.Cache {
		objs[o.Digest] = o.Data
	}
	var conv func(n *Node) *Node
	conv = func(n *Node) *Node {
		switch n.Kind {
		case "lc":
			if b, ok := objs[string(n.Data)]; ok {
				return nFile(b)
			}
			return n.clone()
		case "d":
			d := &Node{Kind: "d"}
			for _, e := range n.Ents {
				d.Ents = append(d.Ents, Ent{e.Name, conv(e.N)})
			}
			return d
		}
		return n.clone()
	}
	return conv(w.Root)
}
