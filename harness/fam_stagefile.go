package main

// Family "stagefile" (C17): Serialize/ToFile -> FromFile on generated stages (YAML-significant
// commands, working dirs and artifact paths, every flag combination), CalculateChecksum against
// the Coq model of the definition JSON, checksum (in)variance under edits.

import (
	"fmt"
	"os"
	"path/filepath"
	"sort"
	"strings"

	"github.com/kevin-hanselman/dud/src/artifact"
	"github.com/kevin-hanselman/dud/src/stage"
)

func init() { families["stagefile"] = runStageFile }

var yamlAtoms = []string{
	"null", "true", "~", "1e3", "0x1F", "012", "1_000", "y", "no", "on", "=", ".inf", "2001-01-01", "+1",
	"- x", "? x", "{", "[", "!t", "*a", "&a", "%", "@", "`", "k: v", "#c", "a #b", "'q'", `"dq"`, "a\\b",
	"é", "日本", "tab\there", " lead", "trail ", "a  b", "x:y", ":", "-", "?", "|", ">", "a,b", "[x]", "{x}",
}

var cmdAtoms = []string{
	"python train.py", "echo 'a: b' # c", "cat <<EOF\nx\nEOF", "  padded  ", "\ttabbed\t", "line1\nline2", "line1\n\nline3\n",
	"echo \"q\" > out", "a && b || c", "true", "x: y", "- item", "# only comment", "echo é日本", "printf '%s\\n' a", "echo a;\\\n echo b",
	"echo\u0085nel", " nbsp ", "cmd\r", "'", "\"", "{}", "[]", "!!str x", "&anchor *alias", "@at", "`bt`", "%percent", "|pipe", ">gt",
}

func mkStageFrom(rec *StageRec) stage.Stage {
	stg := stage.Stage{Checksum: rec.Cs, Command: rec.Cmd, WorkingDir: rec.Wd,
		Inputs: map[string]*artifact.Artifact{}, Outputs: map[string]*artifact.Artifact{}}
	for _, a := range rec.In {
		stg.Inputs[a.Path] = &artifact.Artifact{Checksum: a.Cs, Path: a.Path, IsDir: a.IsDir, DisableRecursion: a.NoRec, SkipCache: true}
	}
	for _, a := range rec.Out {
		stg.Outputs[a.Path] = &artifact.Artifact{Checksum: a.Cs, Path: a.Path, IsDir: a.IsDir, DisableRecursion: a.NoRec, SkipCache: a.Skip}
	}
	return stg
}

func recFromStage(stg *stage.Stage) *StageRec {
	return &StageRec{stg.Checksum, stg.Command, stg.WorkingDir, artsFrom(stg.Inputs), artsFrom(stg.Outputs)}
}

func yartsCoq(as []Art, input bool) string {
	p := make([]string, len(as))
	for i, a := range as {
		skip := a.Skip
		if input {
			skip = false
		}
		p[i] = fmt.Sprintf("(%s, mkYArt (%s) %s %s %s)", cxs(a.Path), cxs(a.Cs), cbool(a.IsDir), cbool(a.NoRec), cbool(skip))
	}
	return clist(p)
}

func optStage(r *StageRec) string {
	if r == nil {
		return "None"
	}
	return "Some (" + r.coq() + ")"
}

func runStageFile(o *opts) {
	r := newRng(o.seed)
	s := newSummary("stagefile", o.seed, o.tier)
	n := 700
	if o.tier == "thorough" {
		n = 20000
	}
	if o.n > 0 {
		n = o.n
	}
	tmp := filepath.Join(o.out, "sfwd")
	must(os.MkdirAll(tmp, 0o755))
	defer rmrf(tmp)
	hexcs := func() string {
		if r.chance(1, 3) {
			return ""
		}
		return fmt.Sprintf("%x", r.bytes(32))
	}
	genPath := func() (string, string) {
		switch r.intn(10) {
		case 0, 1, 2:
			return []string{"data", "out.bin", "a/b", "models/m.pkl", "x/y/z"}[r.intn(5)], "plain"
		case 3:
			return []string{"./a", "a//b", "a/./b", "a/b/", "a/c/../b"}[r.intn(5)], "unclean"
		case 4:
			return []string{"../x", "/abs/p", "a/../../b", "..foo", "a..b"}[r.intn(5)], "hostile"
		case 5:
			if r.chance(1, 6) {
				return "<<", "merge-key"
			}
			return "data/raw", "plain"
		default:
			a := yamlAtoms[r.intn(len(yamlAtoms))]
			if r.chance(1, 3) {
				a = a + "/" + yamlAtoms[r.intn(len(yamlAtoms))]
			}
			return a, "yaml-atom"
		}
	}
	var cases []string
	distinct := map[string]bool{}
	for i := 1; i <= n; i++ {
		rec := &StageRec{Cs: hexcs()}
		cmdClass := "plain"
		switch r.intn(4) {
		case 0:
			rec.Cmd = ""
			cmdClass = "none"
		case 1:
			rec.Cmd = "python train.py --lr 0.1"
		default:
			rec.Cmd = cmdAtoms[r.intn(len(cmdAtoms))]
			cmdClass = "hazard"
		}
		switch r.intn(6) {
		case 0:
			rec.Wd = "sub/dir"
		case 1:
			rec.Wd = []string{".", "./x", "x//y/", "a/../b"}[r.intn(4)]
		case 2:
			rec.Wd = yamlAtoms[r.intn(len(yamlAtoms))]
		}
		used := map[string]bool{}
		classes := map[string]bool{}
		mergeKey := false
		bare := false
		addArts := func(k int, input bool) []Art {
			var out []Art
			for j := 0; j < k; j++ {
				p, cl := genPath()
				cp := filepath.Clean(p)
				if used[cp] {
					continue
				}
				used[cp] = true
				classes[cl] = true
				if cl == "merge-key" {
					mergeKey = true
				}
				a := Art{Cs: hexcs(), Path: p, IsDir: r.chance(1, 3), NoRec: r.chance(1, 5)}
				if !input {
					a.Skip = r.chance(1, 4)
				}
				if bare {
					a = Art{Path: p} // no attribute at all: `path: {}` or the bare `path:`
				}
				out = append(out, a)
			}
			sort.Slice(out, func(i, j int) bool { return out[i].Path < out[j].Path })
			return out
		}
		bare = r.chance(1, 4)
		rec.In = addArts(r.intn(3), true)
		rec.Out = addArts(r.intn(3), false)
		if bare {
			rec.In = append(rec.In, addArts(1+r.intn(2), true)...)
			rec.Out = append(rec.Out, addArts(1+r.intn(2), false)...)
			sort.Slice(rec.In, func(i, j int) bool { return rec.In[i].Path < rec.In[j].Path })
			sort.Slice(rec.Out, func(i, j int) bool { return rec.Out[i].Path < rec.Out[j].Path })
			s.count("hand-written with attribute-less entries")
		}
		stg := mkStageFrom(rec)
		sp := "s.yaml"
		file := filepath.Join(tmp, sp)
		var loaded, reloaded *StageRec
		var cs, csSame string
		var csDiff []string
		var werr error
		if bare {
			// a hand-written file, not dud's own serialisation
			werr = os.WriteFile(file, []byte(stageYAML(rec)), 0o644)
		} else {
			werr = stg.ToFile(file)
		}
		if werr == nil {
			if l, err := stage.FromFile(file); err == nil {
				loaded = recFromStage(&l)
				cs, _ = l.CalculateChecksum()
				// write the loaded stage again and load it again
				l2 := mkStageFrom(loaded)
				if err := l2.ToFile(file); err == nil {
					if ll, err := stage.FromFile(file); err == nil {
						reloaded = recFromStage(&ll)
					}
				}
				// checksum invariance: artifact checksums and the stage checksum do not matter
				same := mkStageFrom(loaded)
				same.Checksum = "ffff"
				for _, a := range same.Inputs {
					a.Checksum = "0123"
				}
				for _, a := range same.Outputs {
					a.Checksum = ""
				}
				csSame, _ = same.CalculateChecksum()
				// every single-field edit of the definition changes it
				edit := func(f func(s *stage.Stage)) {
					e := mkStageFrom(loaded)
					f(&e)
					c, _ := e.CalculateChecksum()
					csDiff = append(csDiff, c)
				}
				edit(func(s *stage.Stage) { s.Command += " --more" })
				edit(func(s *stage.Stage) { s.WorkingDir += "x" })
				edit(func(s *stage.Stage) {
					s.Outputs["zz_new_output"] = &artifact.Artifact{Path: "zz_new_output"}
				})
				edit(func(s *stage.Stage) {
					s.Inputs["zz_new_input"] = &artifact.Artifact{Path: "zz_new_input", SkipCache: true}
				})
				for k, a := range l.Outputs {
					if a == nil {
						continue
					}
					kk, aa := k, *a
					// the same artifact moved to the other section (an input is implicitly skip-cache,
					// so compare with the skip-cache variant of the output)
					edit(func(s *stage.Stage) {
						if o := s.Outputs[kk]; o != nil {
							delete(s.Outputs, kk)
							moved := *o
							moved.SkipCache = true
							s.Inputs[kk] = &moved
						}
					})
					// (a loader that hands back a stage whose keys and paths disagree must show up as a
					// wrong result, not as a crash of this harness)
					flip := func(f func(a *artifact.Artifact)) {
						edit(func(s *stage.Stage) {
							if a := s.Outputs[kk]; a != nil {
								f(a)
							}
						})
					}
					flip(func(a *artifact.Artifact) { a.IsDir = !aa.IsDir })
					flip(func(a *artifact.Artifact) { a.DisableRecursion = !aa.DisableRecursion })
					flip(func(a *artifact.Artifact) { a.SkipCache = !aa.SkipCache })
					edit(func(s *stage.Stage) { delete(s.Outputs, kk) })
					break
				}
				for k, a := range l.Inputs {
					if a == nil {
						continue
					}
					kk, aa := k, *a
					edit(func(s *stage.Stage) {
						if x := s.Inputs[kk]; x != nil {
							x.IsDir = !aa.IsDir
						}
					})
					edit(func(s *stage.Stage) { delete(s.Inputs, kk) })
					break
				}
			}
		}
		diffs := make([]string, len(csDiff))
		for k, d := range csDiff {
			diffs[k] = cxs(d)
		}
		written := fmt.Sprintf("mkYStage (%s) (%s) (%s) %s %s", cxs(rec.Cs), cxs(rec.Cmd), cxs(rec.Wd), yartsCoq(rec.In, true), yartsCoq(rec.Out, false))
		cases = append(cases, fmt.Sprintf("mkSF %d (%s) (%s) (%s) (%s) (%s) (%s) %s", i, cxs(sp), written, optStage(loaded), optStage(reloaded), cxs(cs), cxs(csSame), clist(diffs)))
		var cl []string
		for k := range classes {
			cl = append(cl, k)
		}
		sort.Strings(cl)
		info := map[string]interface{}{"command_class": cmdClass, "path_classes": strings.Join(cl, ","), "loaded": loaded != nil, "command": rec.Cmd, "workdir": rec.Wd}
		if mergeKey {
			info["artifact_path_is_yaml_merge_key"] = true
		}
		s.CaseIndex[fmt.Sprint(i)] = info
		s.count("cmd:" + cmdClass)
		for _, k := range cl {
			s.count("path:" + k)
		}
		s.count(fmt.Sprintf("loaded:%v", loaded != nil))
		distinct[written] = true
	}
	s.Cases = len(cases)
	s.Nontrivial = len(distinct)
	s.Rule = "generated stages: commands (multi-line, quotes, '#', ': ', blanks, tabs, NEL/NBSP, YAML indicators), working dirs, artifact paths (plain, unclean, hostile '..'/absolute, YAML-significant atoms incl. null true ~ 1e3 0x1F 012 y no on << = .inf dates), every flag combination, with and without checksums -> ToFile, FromFile, ToFile, FromFile, CalculateChecksum under edits; distinct by the written value; every case is non-trivial"
	s.Samples = append(s.Samples, s.CaseIndex["1"], s.CaseIndex[fmt.Sprint(n/2)])
	imp := "From DudV Require Import Base.Bytes Model.Fs Model.Cache Model.Stage Model.StageFile Corr.RunLib."
	writeShards(o.out, "sf", imp, "sf_case", "run_sf", cases, 100, s)
	s.write(o.out)
}
