package main

// Family "lock" (C12): every subcommand x working directory x outcome class, with and without a
// pre-existing lock file; and N processes released together.

import (
	"bufio"
	"fmt"
	"os"
	"os/exec"
	"path/filepath"
	"strings"
	"sync"
)

func init() { families["lock"] = runLock }

type lockCmd struct {
	name  string
	args  []string
	desc  int  // 0 prepare, 1 config, 2 pull, 3 nolock
	fails bool // expected to fail on its own (bad argument etc.)
	stdin string
}

func runLock(o *opts) {
	r := newRng(o.seed)
	s := newSummary("lock", o.seed, o.tier)
	base := scenarioDir(o, "lock", 0)
	defer rmrf(filepath.Join(o.out, "w"))
	setup := func(tag string) *Project {
		p := newProject(o, filepath.Join(base, tag), "in")
		p.init()
		must(os.MkdirAll(filepath.Join(p.Root, "sub", "deep"), 0o755))
		must(os.WriteFile(filepath.Join(p.Root, "data.txt"), []byte("hello\n"), 0o644))
		must(os.WriteFile(filepath.Join(p.Root, "src.txt"), []byte("src\n"), 0o644))
		p.writeStage("s.yaml", &StageRec{Cmd: "cp src.txt out.txt", In: []Art{{Path: "src.txt"}}, Out: []Art{{Path: "out.txt"}}})
		p.writeStage("d.yaml", &StageRec{Out: []Art{{Path: "data.txt"}}})
		p.writeStage("bad.yaml", &StageRec{Cmd: "exit 3", Out: []Art{{Path: "never.txt"}}})
		if res := p.dud("", "stage", "add", "s.yaml", "d.yaml"); res.Exit != 0 {
			must(fmt.Errorf("setup: %s", res.Stderr))
		}
		cfg := filepath.Join(p.Root, ".dud", "config.yaml")
		f, err := os.OpenFile(cfg, os.O_APPEND|os.O_WRONLY, 0o644)
		must(err)
		fmt.Fprintf(f, "remote: %s\n", filepath.Join(p.Base, "remote"))
		f.Close()
		must(os.MkdirAll(filepath.Join(p.Base, "remote"), 0o755))
		if res := p.dud("", "run"); res.Exit != 0 {
			must(fmt.Errorf("setup run: %s", res.Stderr))
		}
		if res := p.dud("", "commit"); res.Exit != 0 {
			must(fmt.Errorf("setup commit: %s", res.Stderr))
		}
		return p
	}
	cmds := []lockCmd{
		{"status", []string{"status"}, 0, false, ""},
		{"status-bad-target", []string{"status", "nope.yaml"}, 0, true, ""},
		{"commit", []string{"commit"}, 0, false, ""},
		{"commit-copy", []string{"commit", "--copy"}, 0, false, ""},
		{"commit-bad-target", []string{"commit", "nope.yaml"}, 0, true, ""},
		{"checkout", []string{"checkout"}, 0, false, ""},
		{"checkout-copy-single", []string{"checkout", "-c", "-s", "@s.yaml"}, 0, false, ""},
		{"checkout-bad-target", []string{"checkout", "nope.yaml"}, 0, true, ""},
		{"run", []string{"run"}, 0, false, ""},
		{"run-single", []string{"run", "-s", "@s.yaml"}, 0, false, ""},
		{"run-bad-target", []string{"run", "nope.yaml"}, 0, true, ""},
		{"graph", []string{"graph"}, 0, false, ""},
		{"graph-stages-only", []string{"graph", "--stages-only"}, 0, false, ""},
		{"graph-bad-target", []string{"graph", "nope.yaml"}, 0, true, ""},
		{"push", []string{"push"}, 0, false, ""},
		{"fetch", []string{"fetch"}, 0, false, ""},
		{"push-bad-target", []string{"push", "nope.yaml"}, 0, true, ""},
		{"fetch-bad-target", []string{"fetch", "nope.yaml"}, 0, true, ""},
		{"pull", []string{"pull"}, 2, false, ""},
		{"pull-bad-target", []string{"pull", "nope.yaml"}, 2, true, ""},
		{"stage-add-existing", []string{"stage", "add", "@s.yaml"}, 0, true, ""},
		{"stage-add-missing", []string{"stage", "add", "nofile.yaml"}, 0, true, ""},
		{"stage-rm-unknown", []string{"stage", "remove", "nope.yaml"}, 0, true, ""},
		{"stage-rm-add", []string{"stage", "remove", "@d.yaml"}, 0, false, ""},
		{"stage-gen", []string{"stage", "gen", "-o", "@data.txt", "echo", "hi"}, 3, false, ""},
		{"config-get", []string{"config", "get", "cache"}, 1, false, ""},
		{"config-set", []string{"config", "set", "cache", ".dud/cache"}, 1, false, ""},
		{"config-get-bad", []string{"config", "get", "nonsense"}, 3, true, ""},
		// a valid field that is set nowhere (the project has no remote for this one command)
		{"config-get-unset", []string{"config", "get", "remote"}, 1, false, "noremote"},
		{"config-path", []string{"config", "path"}, 3, false, ""},
		{"checksum", []string{"checksum", "@data.txt"}, 3, false, ""},
		{"checksum-missing", []string{"checksum", "nofile"}, 3, true, ""},
		{"version", []string{"version"}, 3, false, ""},
		{"init-again", []string{"init"}, 3, true, ""},
		{"run-failing-stage", []string{"run", "@bad.yaml"}, 0, true, ""},
		{"commit-missing-output", []string{"commit", "@bad.yaml"}, 0, true, ""},
		// an entry in the way: the error chain contains EEXIST ("file exists")
		{"checkout-obstructed", []string{"checkout", "@d.yaml"}, 0, true, "obstruct"},
		{"checkout-copy-obstructed", []string{"checkout", "--copy", "@d.yaml"}, 0, true, "obstruct"},
		{"pull-obstructed", []string{"pull", "@d.yaml"}, 2, true, "obstruct"},
		// global flags: profiling / tracing output is written around the command
		{"status-profile", []string{"--profile", "status", "@s.yaml", "@d.yaml"}, 0, false, ""},
		{"commit-trace", []string{"--trace", "commit", "@s.yaml", "@d.yaml"}, 0, false, ""},
		{"status-profile-and-trace", []string{"--profile", "--trace", "status", "@s.yaml"}, 3, true, ""},
		{"status-profile-unwritable", []string{"--profile", "status", "@s.yaml", "@d.yaml"}, 0, true, "pprof-full"},
		{"checkout-profile-unwritable", []string{"--profile", "checkout", "@s.yaml", "@d.yaml"}, 0, true, "pprof-full"},
		{"config-get-profile-unwritable", []string{"--profile", "config", "get", "cache"}, 1, true, "pprof-full"},
	}
	var cases []string
	id := 0
	distinct := map[string]bool{}
	for _, cwd := range []string{"", "sub/deep"} {
		for _, pre := range []bool{false, true} {
			p := setup(fmt.Sprintf("m_%v_%v", cwd != "", pre))
			// the bad stage is in the index for the failing-stage cases
			if res := p.dud("", "stage", "add", "bad.yaml"); res.Exit != 0 {
				must(fmt.Errorf("setup bad: %s", res.Stderr))
			}
			for _, c := range cmds {
				if c.name == "run" || c.name == "commit" || c.name == "commit-copy" || c.name == "checkout" || c.name == "push" || c.name == "pull" || c.name == "status" || c.name == "graph" || c.name == "graph-stages-only" || c.name == "fetch" {
					// whole-index commands would trip over bad.yaml: target the good stages
					c.args = append(c.args, "@s.yaml", "@d.yaml")
				}
				args := make([]string, len(c.args))
				for i, a := range c.args {
					if strings.HasPrefix(a, "@") {
						rel, err := filepath.Rel(filepath.Join(p.Root, cwd), filepath.Join(p.Root, a[1:]))
						must(err)
						a = rel
					}
					args[i] = a
				}
				lockPath := filepath.Join(p.Root, ".dud", "lock")
				os.Remove(lockPath)
				if pre {
					must(os.WriteFile(lockPath, nil, 0o600))
				}
				if c.name == "init-again" && cwd != "" {
					continue // init in a sub-directory creates a nested project: not this property
				}
				if c.stdin == "obstruct" {
					// a different regular file where the committed artifact's link was
					os.Remove(filepath.Join(p.Root, "data.txt"))
					must(os.WriteFile(filepath.Join(p.Root, "data.txt"), []byte("edited by the user\n"), 0o644))
				}
				if c.stdin == "pprof-full" {
					// the profile can be created but not written: the error comes after the command's work
					os.Remove(filepath.Join(p.Root, cwd, "dud.pprof"))
					must(os.Symlink("/dev/full", filepath.Join(p.Root, cwd, "dud.pprof")))
				}
				cfgPath := filepath.Join(p.Root, ".dud", "config.yaml")
				var cfgSaved []byte
				if c.stdin == "noremote" {
					cfgSaved, _ = os.ReadFile(cfgPath)
					var kept []string
					for _, l := range strings.Split(string(cfgSaved), "\n") {
						if !strings.HasPrefix(l, "remote:") {
							kept = append(kept, l)
						}
					}
					must(os.WriteFile(cfgPath, []byte(strings.Join(kept, "\n")), 0o644))
				}
				res := p.dud(cwd, args...)
				if c.stdin == "noremote" {
					must(os.WriteFile(cfgPath, cfgSaved, 0o644))
				}
				if c.stdin == "pprof-full" {
					os.Remove(filepath.Join(p.Root, cwd, "dud.pprof"))
				}
				if c.stdin == "obstruct" {
					os.Remove(filepath.Join(p.Root, "data.txt"))
					p.dud("", "checkout", "d.yaml")
				}
				_, err := os.Lstat(lockPath)
				lockAfter := err == nil
				os.Remove(lockPath)
				if c.name == "stage-rm-add" && res.Exit == 0 {
					p.dud("", "stage", "add", "d.yaml")
				}
				id++
				cases = append(cases, fmt.Sprintf("mkL %d %d %s %s %s %s %s", id, c.desc, cbool(cwd == ""), cbool(c.fails), cbool(pre), cbool(res.Exit == 0), cbool(lockAfter)))
				s.CaseIndex[fmt.Sprint(id)] = map[string]interface{}{"cmd": "dud " + strings.Join(args, " "), "cwd": cwd, "prelocked": pre, "exit": res.Exit, "lock_after": lockAfter, "stderr": lastLines(res.Stderr, 2)}
				s.count(fmt.Sprintf("desc:%d cwd-root:%v prelocked:%v exit0:%v", c.desc, cwd == "", pre, res.Exit == 0))
				distinct[c.name+cwd+fmt.Sprint(pre)] = true
			}
		}
	}
	nMatrix := len(cases)
	// concurrent invocations released together
	var ccases []string
	rounds := 3
	ns := []int{2, 8}
	if o.tier == "thorough" {
		rounds = 12
		ns = []int{2, 8, 32}
	}
	for round := 0; round < rounds; round++ {
		for _, n := range ns {
			p := setup(fmt.Sprintf("c_%d_%d", round, n))
			// a stage whose command holds an atomic-mkdir sentinel for a while
			p.writeStage("m.yaml", &StageRec{Cmd: "mkdir .mutex 2>/dev/null || echo overlap >> .violations; sleep 0.0" + fmt.Sprint(1+r.intn(8)) + "; rmdir .mutex; echo ran >> .ran", Out: []Art{{Path: "m.out", Skip: true}}})
			if res := p.dud("", "stage", "add", "m.yaml"); res.Exit != 0 {
				must(fmt.Errorf("setup m: %s", res.Stderr))
			}
			before := p.observe()
			type pr struct {
				exit int
				serr string
			}
			out := make([]pr, n)
			var wg sync.WaitGroup
			start := make(chan struct{})
			for k := 0; k < n; k++ {
				wg.Add(1)
				go func(k int) {
					defer wg.Done()
					cwd := []string{"", "sub/deep"}[k%2]
					target := "m.yaml"
					if cwd != "" {
						target = "../../m.yaml"
					}
					cmd := exec.Command(p.Dud, "run", target)
					cmd.Dir = filepath.Join(p.Root, cwd)
					cmd.Env = p.Env
					var se strings.Builder
					cmd.Stderr = &se
					<-start
					err := cmd.Run()
					rc := 0
					if err != nil {
						rc = 1
						if ee, ok := err.(*exec.ExitError); ok {
							rc = ee.ExitCode()
						}
					}
					out[k] = pr{rc, se.String()}
				}(k)
			}
			close(start)
			wg.Wait()
			ok, refused, other := 0, 0, 0
			for _, x := range out {
				switch {
				case x.exit == 0:
					ok++
				case strings.Contains(x.serr, "lock file"):
					refused++
				default:
					other++
				}
			}
			viol := 0
			if b, err := os.ReadFile(filepath.Join(p.Root, ".violations")); err == nil {
				viol = strings.Count(string(b), "\n")
			}
			ran := 0
			if b, err := os.ReadFile(filepath.Join(p.Root, ".ran")); err == nil {
				ran = strings.Count(string(b), "\n")
			}
			_, err := os.Lstat(filepath.Join(p.Root, ".dud", "lock"))
			after := p.observe()
			// refused invocations change nothing: stage files, index and cache are as before, and the
			// number of executions equals the number of successful invocations
			unchanged := ran == ok && fmt.Sprint(before.Index) == fmt.Sprint(after.Index) && len(before.Cache) == len(after.Cache)
			for i := range before.Stages {
				if string(before.Stages[i].Raw) != string(after.Stages[i].Raw) {
					unchanged = false
				}
			}
			id++
			ccases = append(ccases, fmt.Sprintf("mkC %d %d %d %d %d %d %s %s", id, n, ok, refused, other, viol, cbool(err == nil), cbool(unchanged)))
			s.CaseIndex[fmt.Sprint(id)] = map[string]interface{}{"concurrent": n, "ok": ok, "refused": refused, "other": other, "violations": viol, "executions": ran}
			s.count(fmt.Sprintf("concurrent:%d", n))
			distinct[fmt.Sprintf("c%d-%d-%d", n, ok, refused)] = true
		}
	}
	// system-call traces of single invocations: everything dud (or a stage command, or rclone) changes
	// in the project happens between the creation and the removal of .dud/lock
	var tcases []string
	{
		type trCmd struct {
			name  string
			args  []string
			desc  int
			fails bool
			prep  string
		}
		trs := []trCmd{
			{"commit", []string{"commit", "@s.yaml", "@d.yaml"}, 0, false, "edit"},
			{"commit-copy", []string{"commit", "--copy", "@s.yaml", "@d.yaml"}, 0, false, "edit"},
			{"checkout", []string{"checkout", "@s.yaml", "@d.yaml"}, 0, false, "remove"},
			{"checkout-copy", []string{"checkout", "--copy", "@s.yaml", "@d.yaml"}, 0, false, "remove"},
			{"run", []string{"run", "@s.yaml", "@d.yaml"}, 0, false, "edit-src"},
			{"status", []string{"status", "@s.yaml", "@d.yaml"}, 0, false, ""},
			{"push", []string{"push", "@s.yaml", "@d.yaml"}, 0, false, ""},
			{"fetch", []string{"fetch", "@s.yaml", "@d.yaml"}, 0, false, "wipe-cache"},
			{"pull", []string{"pull", "@s.yaml", "@d.yaml"}, 2, false, "remove"},
			{"pull-copy", []string{"pull", "--copy", "@s.yaml", "@d.yaml"}, 2, false, "remove"},
			{"pull-after-wipe", []string{"pull", "@s.yaml", "@d.yaml"}, 2, false, "wipe-cache-remove"},
			{"stage-rm", []string{"stage", "remove", "@d.yaml"}, 0, false, ""},
			{"stage-add", []string{"stage", "add", "@d.yaml"}, 0, false, ""},
			{"config-set", []string{"config", "set", "cache", ".dud/cache"}, 1, false, ""},
			{"checkout-obstructed", []string{"checkout", "@d.yaml"}, 0, true, "obstruct"},
			{"run-failing-stage", []string{"run", "@bad.yaml"}, 0, true, ""},
			{"version", []string{"version"}, 3, false, ""},
		}
		for _, cwd := range []string{"", "sub/deep"} {
			p := setup(fmt.Sprintf("t_%v", cwd != ""))
			if res := p.dud("", "stage", "add", "bad.yaml"); res.Exit != 0 {
				must(fmt.Errorf("setup bad: %s", res.Stderr))
			}
			if res := p.dud("", "push", "s.yaml", "d.yaml"); res.Exit != 0 {
				must(fmt.Errorf("setup push: %s", res.Stderr))
			}
			lockPath := filepath.Join(p.Root, ".dud", "lock")
			remote := filepath.Join(p.Base, "remote")
			for _, c := range trs {
				args := make([]string, len(c.args))
				for i, a := range c.args {
					if strings.HasPrefix(a, "@") {
						rel, err := filepath.Rel(filepath.Join(p.Root, cwd), filepath.Join(p.Root, a[1:]))
						must(err)
						a = rel
					}
					args[i] = a
				}
				switch c.prep {
				case "edit":
					os.Remove(filepath.Join(p.Root, "data.txt"))
					must(os.WriteFile(filepath.Join(p.Root, "data.txt"), []byte(fmt.Sprintf("edit %d\n", r.intn(1<<30))), 0o644))
				case "edit-src":
					must(os.WriteFile(filepath.Join(p.Root, "src.txt"), []byte(fmt.Sprintf("src %d\n", r.intn(1<<30))), 0o644))
				case "remove", "wipe-cache-remove":
					os.Remove(filepath.Join(p.Root, "data.txt"))
					os.Remove(filepath.Join(p.Root, "out.txt"))
				case "obstruct":
					os.Remove(filepath.Join(p.Root, "data.txt"))
					must(os.WriteFile(filepath.Join(p.Root, "data.txt"), []byte("edited by the user\n"), 0o644))
				}
				if strings.HasPrefix(c.prep, "wipe-cache") {
					// everything is on the remote: make the fetch half do real work
					p.dud("", "push", "s.yaml", "d.yaml")
					objs, _ := snapCache(p.CacheDir)
					for _, ob := range objs {
						os.Remove(cachePathOf(p.CacheDir, ob.Digest))
					}
				}
				logf := filepath.Join(base, "trace.log")
				a := append([]string{"--reads", "--log", logf, "--", p.Dud}, args...)
				cmd := exec.Command(sysmonBin(), a...)
				cmd.Dir = filepath.Join(p.Root, cwd)
				cmd.Env = append([]string{}, p.Env...)
				err := cmd.Run()
				exit0 := err == nil
				// events: 0 = .dud/lock created with O_EXCL, 1 = .dud/lock unlinked, 2 = any other
				// mutating call below the project, its cache or the remote (runs of 2 are collapsed),
				// 3 = the dud process opens the index, a stage file or a cache object for reading
				var ev []string
				if f, err := os.Open(logf); err == nil {
					sc := bufio.NewScanner(f)
					sc.Buffer(make([]byte, 1<<20), 1<<20)
					for sc.Scan() {
						parts := strings.Split(sc.Text(), "\t")
						if len(parts) < 5 {
							continue
						}
						path := filepath.Clean(parts[3])
						e := ""
						if parts[2] == "ropen" {
							// 3 = the project's state is read: the index, a stage file, a cache object
							// (by the dud process itself)
							if parts[1] == "ROOT" && (path == filepath.Join(p.Root, ".dud", "index") || (strings.HasPrefix(path, p.Root+"/") && strings.HasSuffix(path, ".yaml") && !strings.HasPrefix(path, p.Root+"/.dud/")) || strings.HasPrefix(path, p.CacheDir+"/")) {
								if len(ev) == 0 || ev[len(ev)-1] != "3" {
									ev = append(ev, "3")
								}
							}
							continue
						}
						switch {
						case path == lockPath && parts[2] == "open" && strings.Contains(parts[4], "X"):
							e = "0"
						case path == lockPath && parts[2] == "unlink":
							e = "1"
						case path == lockPath:
							continue // the rmdir fallback of os.Remove
						case strings.HasPrefix(path, p.Root+"/") || strings.HasPrefix(path, p.CacheDir+"/") || strings.HasPrefix(path, remote+"/"):
							e = "2"
						default:
							continue
						}
						if e == "2" && len(ev) > 0 && ev[len(ev)-1] == "2" {
							continue
						}
						ev = append(ev, e)
					}
					f.Close()
				}
				_, lerr := os.Lstat(lockPath)
				os.Remove(lockPath)
				switch c.prep {
				case "obstruct":
					os.Remove(filepath.Join(p.Root, "data.txt"))
					p.dud("", "checkout", "d.yaml")
				}
				if c.name == "fetch" || c.name == "run-failing-stage" {
					p.dud("", "checkout", "s.yaml", "d.yaml")
				}
				id++
				tcases = append(tcases, fmt.Sprintf("mkLT %d %d %s %s %s %s", id, c.desc, cbool(c.fails), cbool(exit0), cbool(lerr == nil), clist(ev)))
				s.CaseIndex[fmt.Sprint(id)] = map[string]interface{}{"trace_of": "dud " + strings.Join(args, " "), "cwd": cwd, "exit0": exit0, "events": strings.Join(ev, "")}
				s.count("trace:" + c.name)
				distinct["trace"+c.name+cwd] = true
			}
		}
	}
	s.Cases = nMatrix + len(ccases) + len(tcases)
	s.Nontrivial = len(distinct)
	s.Rule = "matrix: every subcommand (incl. error variants) x invocation directory (root, sub/deep) x lock file pre-existing or not -> exit class and lock presence afterwards; traces: the ptrace log of single invocations of every locking subcommand (root and sub-directory) projected to lock-created / lock-removed / other-mutating-call events, compared with the model's lock effects and checked for every change happening while the lock is held; concurrent: N in {2,8[,32]} `dud run` released together on a stage that holds an atomic-mkdir sentinel; every case is non-trivial; distinct by (subcommand, cwd, pre-lock) / (N, outcome counts)"
	s.Samples = append(s.Samples, s.CaseIndex["3"], s.CaseIndex[fmt.Sprint(id)])
	writeShards(o.out, "lock", "From DudV Require Import Model.Lock Corr.RunLock.", "lcase", "run_lock", cases, 1000, s)
	writeShards(o.out, "conc", "From DudV Require Import Model.Lock Corr.RunLock.", "ccase", "run_conc", ccases, 1000, s)
	writeShards(o.out, "ltrace", "From DudV Require Import Model.Lock Corr.RunLock.", "ltcase", "run_ltrace", tcases, 1000, s)
	s.write(o.out)
}
