package main

// Family "hostile" (C18): stage files and directory manifests with hostile paths; nothing outside
// the project root, the cache directory and the config directory may be created, changed or
// deleted (a sentinel tree around the project is snapshotted before and after every command),
// escaping stage files and manifests must be rejected.

import (
	"crypto/sha256"
	"fmt"
	"os"
	"path/filepath"
	"sort"
	"strings"
)

func init() { families["hostile"] = runHostile }

// sentinelHash digests everything under base except the project, its caches and the config dir.
func sentinelHash(base string, skip []string) string {
	h := sha256.New()
	var walk func(dir string)
	walk = func(dir string) {
		ents, err := os.ReadDir(dir)
		if err != nil {
			return
		}
		sort.Slice(ents, func(i, j int) bool { return ents[i].Name() < ents[j].Name() })
		for _, e := range ents {
			p := filepath.Join(dir, e.Name())
			skipIt := false
			for _, s := range skip {
				if p == s {
					skipIt = true
				}
			}
			if skipIt {
				continue
			}
			fi, err := os.Lstat(p)
			if err != nil {
				continue
			}
			fmt.Fprintf(h, "%s|%v|%d|", p, fi.Mode(), fi.Size())
			switch {
			case fi.Mode().IsRegular():
				b, _ := os.ReadFile(p)
				h.Write(b)
			case fi.Mode()&os.ModeSymlink != 0:
				t, _ := os.Readlink(p)
				h.Write([]byte(t))
			case fi.IsDir():
				walk(p)
			}
		}
	}
	walk(base)
	return fmt.Sprintf("%x", h.Sum(nil))
}

func runHostile(o *opts) {
	r := newRng(o.seed)
	s := newSummary("hostile", o.seed, o.tier)
	var all []*Transition
	distinct := map[string]bool{}
	sc := 0
	newProj := func() (*Project, []string) {
		sc++
		base := scenarioDir(o, "hostile", sc)
		p := newProject(o, base, []string{"in", "abs"}[sc%2])
		p.init()
		// sentinel surroundings
		must(os.WriteFile(filepath.Join(base, "outer", "sentinel.txt"), []byte("do not touch"), 0o644))
		must(os.MkdirAll(filepath.Join(base, "outer", "neighbour"), 0o755))
		must(os.WriteFile(filepath.Join(base, "outer", "neighbour", "x"), []byte("x"), 0o644))
		must(os.WriteFile(filepath.Join(base, "escape_target.txt"), []byte("grandparent"), 0o644))
		return p, []string{p.Root, p.CacheDir, p.Xdg}
	}
	run := func(p *Project, skip []string, c Cmd, specs []int, step string, extra map[string]interface{}) *Transition {
		before := sentinelHash(p.Base, skip)
		t, _ := p.do(c, nil, specs, nil, nil)
		if sentinelHash(p.Base, skip) != before {
			t.Obs = append(t.Obs, 1)
		}
		t.Info["scenario"] = sc
		t.Info["step"] = step
		for k, v := range extra {
			t.Info[k] = v
		}
		all = append(all, t)
		return t
	}
	// (a) hostile stage files
	hostilePaths := []struct {
		p      string
		reject bool
	}{
		{"../x", true}, {"../../escape_target.txt", true}, {"a/../../b", true}, {"/tmp/abs_target", true},
		{"a/../b", false}, {"..foo", true}, {"a/..", true}, {"ok/sub", false}, {"./ok2", false}, {"a/b/../../../c", true},
	}
	for _, hp := range hostilePaths {
		for _, where := range []string{"output", "input", "workdir"} {
			if o.tier == "quick" && r.chance(1, 3) {
				continue
			}
			p, skip := newProj()
			var y string
			switch where {
			case "output":
				y = fmt.Sprintf("outputs:\n  %q:\n    is-dir: false\n", hp.p)
			case "input":
				y = fmt.Sprintf("command: echo hi\ninputs:\n  %q: {}\noutputs:\n  out.txt: {}\n", hp.p)
			case "workdir":
				y = fmt.Sprintf("working-dir: %q\noutputs:\n  out.txt: {}\n", hp.p)
			}
			must(os.WriteFile(filepath.Join(p.Root, "h.yaml"), []byte(y), 0o644))
			p.StageFs = append(p.StageFs, "h.yaml")
			must(os.WriteFile(filepath.Join(p.Root, "out.txt"), []byte("o"), 0o644))
			cl := filepath.Clean(hp.p)
			reject := strings.Contains(cl, "..") || filepath.IsAbs(hp.p) || (where != "workdir" && cl == ".")
			sp := want(20, 13)
			if reject {
				sp = append(sp, want(5)...)
			}
			t := run(p, skip, Cmd{Kind: "stageadd", Targets: []string{"h.yaml"}}, sp, "stage add with hostile "+where, map[string]interface{}{"path": hp.p, "where": where})
			s.count("stagefile:" + where)
			distinct["sf"+where+hp.p] = true
			if t.OK {
				// an accepted stage: commit, run, checkout stay inside too
				for _, c := range []Cmd{{Kind: "commit"}, {Kind: "checkout", Copy: true}} {
					run(p, skip, c, want(20, 13), c.Kind+" of accepted stage", map[string]interface{}{"path": hp.p, "where": where})
				}
			}
			rmrf(p.Base)
		}
	}
	// (a2) a stage file whose artifact BODY carries a `path:` of its own, different from the (harmless)
	// key it is listed under: whatever dud does with such a file, it does it inside the project
	for _, body := range []string{"../outer/planted.txt", "../outer/neighbour", "../escape_target.txt", "/tmp/dud_verif_abs_by_body"} {
		for _, where := range []string{"outputs", "inputs"} {
			if o.tier == "quick" && r.chance(1, 4) {
				continue
			}
			p, skip := newProj()
			must(os.WriteFile(filepath.Join(p.Root, "real.bin"), []byte("a committed object"), 0o644))
			p.writeStage("real.yaml", &StageRec{Out: []Art{{Path: "real.bin"}}})
			p.dud("", "stage", "add", "real.yaml")
			p.dud("", "commit", "--copy")
			cs := ""
			if w := p.observe(); len(w.Cache) > 0 {
				cs = w.Cache[0].Digest
			}
			y := fmt.Sprintf("command: \"true\"\n%s:\n  safe.txt:\n    path: %q\n    checksum: %s\n", where, body, cs)
			if where == "inputs" {
				y += "outputs:\n  out2.txt: {}\n"
			}
			must(os.WriteFile(filepath.Join(p.Root, "h.yaml"), []byte(y), 0o644))
			must(os.WriteFile(filepath.Join(p.Root, "out2.txt"), []byte("o"), 0o644))
			p.StageFs = append(p.StageFs, "h.yaml")
			extra := map[string]interface{}{"path_in_body": body, "where": where}
			t := run(p, skip, Cmd{Kind: "stageadd", Targets: []string{"h.yaml"}}, want(20, 13), "stage add of a stage whose artifact body names another path", extra)
			if t.OK {
				for _, c := range []Cmd{{Kind: "checkout"}, {Kind: "checkout", Copy: true}, {Kind: "commit"}, {Kind: "status"}} {
					run(p, skip, c, want(20, 13), c.Kind+" with an artifact body that names another path", extra)
				}
			}
			s.count("stagefile:path-in-body")
			distinct["pib"+where+body] = true
			os.Remove("/tmp/dud_verif_abs_by_body")
			rmrf(p.Base)
		}
	}
	// (b) hostile manifests
	type hent struct{ key, path string }
	hostileEntries := []hent{
		{"../x", "../x"}, {"../../escape_target.txt", "../../escape_target.txt"}, {"/tmp/abs_by_manifest", "/tmp/abs_by_manifest"},
		{"a/b", "a/b"}, {".", "."}, {"..", ".."}, {"", ""}, {"good", "../sneaky"}, {"good", "other"}, {"x\x00y", "x\x00y"},
	}
	for _, he := range hostileEntries {
		for _, cmdKind := range []string{"checkout", "checkout-copy", "commit", "status", "pull"} {
			if o.tier == "quick" && r.chance(1, 3) {
				continue
			}
			p, skip := newProj()
			// a committed directory to have real objects around
			must(os.MkdirAll(filepath.Join(p.Root, "data"), 0o755))
			must(os.WriteFile(filepath.Join(p.Root, "data", "f.txt"), []byte("payload"), 0o644))
			p.writeStage("s.yaml", &StageRec{Out: []Art{{Path: "data", IsDir: true}}})
			if res := p.dud("", "stage", "add", "s.yaml"); res.Exit != 0 {
				must(fmt.Errorf("hostile setup: %s", res.Stderr))
			}
			if res := p.dud("", "commit"); res.Exit != 0 {
				must(fmt.Errorf("hostile commit: %s", res.Stderr))
			}
			w := p.observe()
			var fileObj string
			for _, ob := range w.Cache {
				if string(ob.Data) == "payload" {
					fileObj = ob.Digest
				}
			}
			man := fmt.Sprintf(`{"path":"data","contents":{%s:{"checksum":%q,"path":%s}}}`+"\n", jsonStr(he.key), fileObj, jsonStr(he.path))
			d := putObject(p.CacheDir, []byte(man))
			rec := loadStage(filepath.Join(p.Root, "s.yaml"))
			rec.Out[0].Cs = d
			p.writeStage("s.yaml", rec)
			var c Cmd
			switch cmdKind {
			case "checkout":
				rmrf(filepath.Join(p.Root, "data"))
				c = Cmd{Kind: "checkout"}
			case "checkout-copy":
				rmrf(filepath.Join(p.Root, "data"))
				c = Cmd{Kind: "checkout", Copy: true}
			case "commit":
				c = Cmd{Kind: "commit"}
			case "status":
				c = Cmd{Kind: "status"}
			case "pull":
				// pull = fetch + checkout; nothing to fetch, the hostile manifest is local
				rmrf(filepath.Join(p.Root, "data"))
				cfg := filepath.Join(p.Root, ".dud", "config.yaml")
				f, err := os.OpenFile(cfg, os.O_APPEND|os.O_WRONLY, 0o644)
				must(err)
				fmt.Fprintf(f, "remote: %s\n", filepath.Join(p.Base, "remote_dir"))
				f.Close()
				must(os.MkdirAll(filepath.Join(p.Base, "remote_dir"), 0o755))
				skip = append(skip, filepath.Join(p.Base, "remote_dir"))
			}
			before := sentinelHash(p.Base, skip)
			var t *Transition
			if cmdKind == "pull" {
				// not a modelled command: observe exit and surroundings only
				pre := p.observe()
				res := p.dud("", "pull")
				post := p.observe()
				t = &Transition{Pre: pre, Cmd: Cmd{Kind: "checkout"}, OK: res.Exit == 0, Post: post, Specs: want(5, 20, 13), Res: res,
					Info: map[string]interface{}{"cmd": "dud pull", "exit": res.Exit}}
			} else {
				t, _ = p.do(c, nil, want(5, 20, 13), nil, nil)
			}
			if sentinelHash(p.Base, skip) != before {
				t.Obs = append(t.Obs, 1)
			}
			t.Info["scenario"] = sc
			t.Info["step"] = cmdKind + " with hostile manifest"
			t.Info["entry_key"] = he.key
			t.Info["entry_path"] = he.path
			all = append(all, t)
			s.count("manifest:" + cmdKind)
			distinct["m"+he.key+he.path+cmdKind] = true
			rmrf(p.Base)
		}
	}
	// (c) hostile index lines: a stage file outside the project must never be loaded, let alone
	// written back by commit
	for _, hl := range []struct {
		line   string
		reject bool
	}{
		{"../neighbour/h.yaml", true}, {"@abs", true}, {"sub/../../neighbour/h.yaml", true}, {"../proj/../neighbour/h.yaml", true},
		{"sub/../h_inside.yaml", false}, {"..h.yaml", false},
	} {
		for _, c := range []Cmd{{Kind: "commit"}, {Kind: "checkout"}, {Kind: "status"}, {Kind: "run"}, {Kind: "graph"}} {
			if o.tier == "quick" && r.chance(1, 3) {
				continue
			}
			p, skip := newProj()
			must(os.MkdirAll(filepath.Join(p.Root, "sub"), 0o755))
			must(os.WriteFile(filepath.Join(p.Root, "f.txt"), []byte("payload"), 0o644))
			must(os.WriteFile(filepath.Join(p.Root, "extra.txt"), []byte("extra"), 0o644))
			p.writeStage("s.yaml", &StageRec{Out: []Art{{Path: "f.txt"}}})
			if res := p.dud("", "stage", "add", "s.yaml"); res.Exit != 0 {
				must(fmt.Errorf("hostile setup: %s", res.Stderr))
			}
			line := hl.line
			if line == "@abs" {
				line = filepath.Join(p.Base, "outer", "neighbour", "h.yaml")
			}
			// the stage file the line names (hand-written: a rewrite shows)
			target := line
			if !filepath.IsAbs(target) {
				target = filepath.Join(p.Root, line)
			}
			must(os.WriteFile(target, []byte("# not dud's to rewrite\noutputs:\n  extra.txt: {}\n"), 0o644))
			idx := filepath.Join(p.Root, ".dud", "index")
			cur, err := os.ReadFile(idx)
			must(err)
			must(os.WriteFile(idx, append(cur, []byte(line+"\n")...), 0o644))
			p.StageFs = append(p.StageFs, line)
			sp := want(20, 13)
			if hl.reject {
				sp = append(sp, want(5)...)
			}
			run(p, skip, c, sp, c.Kind+" with a hostile index line", map[string]interface{}{"index_line": hl.line})
			s.count("index:" + c.Kind)
			distinct["ix"+hl.line+c.Kind] = true
			rmrf(p.Base)
		}
	}
	// (d) stage files that `dud stage add` is asked to put into the index: what it accepts, the next
	// command must be able to load
	for _, sf := range []struct {
		name   string
		reject bool
	}{
		{"../neighbour/h.yaml", true}, {"sp.yaml ", true}, {" lead.yaml", true}, {"sub/../../neighbour/h.yaml", true},
		{"in ner.yaml", false}, {"sub/back2.yaml", false}, {"..dots.yaml", false}, {"...yaml", false}, {"..staging/s.yaml", false},
	} {
		p, skip := newProj()
		must(os.MkdirAll(filepath.Join(p.Root, "sub"), 0o755))
		must(os.WriteFile(filepath.Join(p.Root, "extra.txt"), []byte("extra"), 0o644))
		must(os.MkdirAll(filepath.Dir(filepath.Join(p.Root, sf.name)), 0o755))
		must(os.WriteFile(filepath.Join(p.Root, sf.name), []byte("outputs:\n  extra.txt: {}\n"), 0o644))
		p.StageFs = append(p.StageFs, sf.name)
		sp := want(20, 13)
		if sf.reject {
			sp = append(sp, want(5)...)
		} else {
			sp = append(sp, want(11)...)
		}
		t := run(p, skip, Cmd{Kind: "stageadd", Targets: []string{sf.name}}, sp, "stage add of an unusual stage path", map[string]interface{}{"stage_path": sf.name})
		// whatever stage add did, the index it left behind loads
		ssp := want(20, 13)
		if t.OK {
			ssp = want(20, 13, 11) // what stage add accepted, the next command loads
		}
		run(p, skip, Cmd{Kind: "status"}, ssp, "status after stage add of an unusual stage path", map[string]interface{}{"stage_path": sf.name, "stage_add_ok": t.OK})
		if t.OK {
			run(p, skip, Cmd{Kind: "commit"}, want(11, 20, 13), "commit after stage add of an unusual stage path", map[string]interface{}{"stage_path": sf.name})
		}
		s.count("stagepath")
		distinct["sp"+sf.name] = true
		rmrf(p.Base)
	}
	// (f) a sub-directory of a committed directory replaced by a link to a directory OUTSIDE the project:
	// checkout must not follow it
	for _, cp := range []bool{false, true} {
		for _, depth := range []int{1, 2} {
			p, skip := newProj()
			sub := "lnkdir"
			if depth == 2 {
				sub = "mid/lnkdir"
			}
			must(os.MkdirAll(filepath.Join(p.Root, "data", sub), 0o755))
			must(os.WriteFile(filepath.Join(p.Root, "data", sub, "inner.txt"), []byte("inner"), 0o644))
			must(os.WriteFile(filepath.Join(p.Root, "data", "top.txt"), []byte("top"), 0o644))
			p.writeStage("s.yaml", &StageRec{Out: []Art{{Path: "data", IsDir: true}}})
			if res := p.dud("", "stage", "add", "s.yaml"); res.Exit != 0 {
				must(fmt.Errorf("hostile setup: %s", res.Stderr))
			}
			if res := p.dud("", "commit"); res.Exit != 0 {
				must(fmt.Errorf("hostile commit: %s", res.Stderr))
			}
			rmrf(filepath.Join(p.Root, "data", sub))
			must(os.Symlink(filepath.Join(p.Base, "outer", "neighbour"), filepath.Join(p.Root, "data", sub)))
			run(p, skip, Cmd{Kind: "checkout", Copy: cp}, want(5, 20, 13), "checkout over a sub-directory replaced by a link to an outside directory", map[string]interface{}{"depth": depth})
			s.count("link-to-outside-directory")
			distinct[fmt.Sprintf("lo%v%d", cp, depth)] = true
			rmrf(p.Base)
		}
	}
	// (e) a relative cache setting that climbs out of the project, used from sub-directories: objects
	// go to the CONFIGURED cache directory (relative to the project root), nowhere else
	for _, cwd := range []string{"", "sub", "sub/deep"} {
		for _, cp := range []bool{false, true} {
			sc++
			base := scenarioDir(o, "hostile", sc)
			p := newProject(o, base, "in")
			p.CacheDir = filepath.Join(base, "extcache") // = <root>/../../extcache
			p.CacheCfg = "../../extcache"
			p.init()
			must(os.WriteFile(filepath.Join(base, "outer", "sentinel.txt"), []byte("do not touch"), 0o644))
			must(os.MkdirAll(filepath.Join(p.Root, "sub", "deep"), 0o755))
			must(os.MkdirAll(filepath.Join(p.Root, "data"), 0o755))
			must(os.WriteFile(filepath.Join(p.Root, "data", "f.txt"), []byte("payload"), 0o644))
			p.writeStage("s.yaml", &StageRec{Out: []Art{{Path: "data", IsDir: true}}})
			if res := p.dud("", "stage", "add", "s.yaml"); res.Exit != 0 {
				must(fmt.Errorf("hostile setup: %s", res.Stderr))
			}
			skip := []string{p.Root, p.CacheDir, p.Xdg}
			run(p, skip, Cmd{Kind: "commit", Copy: cp, Cwd: cwd}, want(11, 20, 13, 1), "commit from "+cwd+" with a relative cache outside the project", map[string]interface{}{"cwd": cwd})
			rmrf(filepath.Join(p.Root, "data"))
			run(p, skip, Cmd{Kind: "checkout", Copy: cp, Cwd: cwd}, want(11, 20, 13), "checkout from "+cwd+" with a relative cache outside the project", map[string]interface{}{"cwd": cwd})
			s.count("relative-cache-outside")
			distinct[fmt.Sprintf("rc%s%v", cwd, cp)] = true
			rmrf(p.Base)
		}
	}
	s.Cases = len(all)
	s.Nontrivial = len(distinct)
	s.Rule = "a relative cache setting that climbs out of the project x invocation directory; unusual stage paths given to stage add (outside the project, surrounding blanks; accepted: inner blanks, a sub-directory, ..name) followed by status and commit; hostile index lines (../x, absolute, a/../../x, root-name/../x; accepted: a/../x inside, ..name) x {commit, checkout, status, run, graph}; hostile stage files ('..' at every position, absolute paths, a/../../b, ..foo, as output / input / working dir) through `dud stage add` (+ run/commit/checkout when accepted); hostile directory manifests (entry ../x, ../../x, /abs, a/b, '.', '..', empty, path != key, NUL) x {checkout, checkout --copy, commit, status, pull}; a sentinel tree around the project is hashed before/after; every case is non-trivial; distinct by (path, position / command)"
	if len(all) > 0 {
		s.Samples = append(s.Samples, all[0].Info, all[len(all)/2].Info)
	}
	emitTransitions(o, "hostile", all, s, 10)
	s.write(o.out)
	rmrf(filepath.Join(o.out, "w"))
	_ = strings.TrimSpace
}

func jsonStr(s string) string {
	var sb strings.Builder
	sb.WriteByte('"')
	for i := 0; i < len(s); i++ {
		c := s[i]
		switch {
		case c == '"' || c == '\\':
			sb.WriteByte('\\')
			sb.WriteByte(c)
		case c < 0x20:
			fmt.Fprintf(&sb, "\\u%04x", c)
		default:
			sb.WriteByte(c)
		}
	}
	sb.WriteByte('"')
	return sb.String()
}
