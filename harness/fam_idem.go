package main

// Family "idem" (C15): every sequence over {commit, commit --copy, checkout, checkout --copy} of
// length <= 3 (quick) / <= 4 (thorough) after an initial commit, on several fixtures and stage
// subsets; `dud init` re-run from the root and from a sub-directory.
// Family "effects" (C07): commit / checkout / status over stages with plain file inputs,
// directory inputs and skip-cache outputs.

import (
	"crypto/sha256"
	"fmt"
	"os"
	"path/filepath"
	"time"
)

func init() {
	families["idem"] = runIdem
	families["effects"] = runEffects
}

type fixture struct {
	name  string
	build func(p *Project, r *rng) []string // returns stage files
}

func fixtures() []fixture {
	return []fixture{
		{"file", func(p *Project, r *rng) []string {
			must(os.WriteFile(filepath.Join(p.Root, "one.bin"), r.bytes(40), 0o644))
			p.writeStage("s.yaml", &StageRec{Out: []Art{{Path: "one.bin"}}})
			return []string{"s.yaml"}
		}},
		{"dir", func(p *Project, r *rng) []string {
			var pool [][]byte
			t := genTree(r, 0, treeOpts{maxDepth: 2, maxFan: 4, allowEmptyDir: true}, &pool, nil)
			t.set("always", nFile([]byte("x")))
			materialize(filepath.Join(p.Root, "tree"), t, p.CacheDir)
			p.writeStage("s.yaml", &StageRec{Out: []Art{{Path: "tree", IsDir: true}}})
			return []string{"s.yaml"}
		}},
		{"pipeline", func(p *Project, r *rng) []string {
			must(os.WriteFile(filepath.Join(p.Root, "src.txt"), []byte("source\n"), 0o644))
			must(os.WriteFile(filepath.Join(p.Root, "mid.txt"), []byte("source\n"), 0o644))
			must(os.MkdirAll(filepath.Join(p.Root, "out"), 0o755))
			must(os.WriteFile(filepath.Join(p.Root, "out", "final.txt"), []byte("source\n"), 0o644))
			p.writeStage("a.yaml", &StageRec{Cmd: "cp src.txt mid.txt", In: []Art{{Path: "src.txt"}}, Out: []Art{{Path: "mid.txt"}}})
			p.writeStage("sub/b.yaml", &StageRec{Cmd: "mkdir -p out && cp mid.txt out/final.txt", In: []Art{{Path: "mid.txt"}}, Out: []Art{{Path: "out", IsDir: true}}})
			return []string{"a.yaml", "sub/b.yaml"}
		}},
		{"deep-minimal-pools", func(p *Project, r *rng) []string {
			// five directory levels, several sub-directories per level, under the smallest worker pools
			// (one shared token, one dedicated per directory): every directory still gets its worker
			p.ExtraEnv = append(p.ExtraEnv, "DUD_VERIF_SHARED_WORKERS=1", "DUD_VERIF_DEDICATED_WORKERS=1")
			p.Timeout = 25 * time.Second
			d := "deep"
			for lvl := 0; lvl < 5; lvl++ {
				must(os.MkdirAll(filepath.Join(p.Root, d, "side"), 0o755))
				must(os.WriteFile(filepath.Join(p.Root, d, fmt.Sprintf("f%d.txt", lvl)), r.bytes(10+lvl), 0o644))
				must(os.WriteFile(filepath.Join(p.Root, d, "side", "s.txt"), r.bytes(5+lvl), 0o644))
				d = filepath.Join(d, "down")
			}
			p.writeStage("s.yaml", &StageRec{Out: []Art{{Path: "deep", IsDir: true}}})
			return []string{"s.yaml"}
		}},
		{"flags", func(p *Project, r *rng) []string {
			// every artifact flag a stage file can carry: a skip-cache file output beside a cached
			// one, a non-recursive directory output, a non-recursive directory input
			must(os.WriteFile(filepath.Join(p.Root, "big.bin"), r.bytes(60), 0o644))
			must(os.WriteFile(filepath.Join(p.Root, "kept.bin"), r.bytes(50), 0o644))
			for _, d := range []string{"flat", "cfg"} {
				must(os.MkdirAll(filepath.Join(p.Root, d, "below"), 0o755))
				must(os.WriteFile(filepath.Join(p.Root, d, "top.txt"), []byte("top of "+d), 0o644))
				must(os.WriteFile(filepath.Join(p.Root, d, "below", "ignored.txt"), []byte("below "+d), 0o644))
			}
			p.writeStage("f.yaml", &StageRec{In: []Art{{Path: "cfg", IsDir: true, NoRec: true}},
				Out: []Art{{Path: "big.bin", Skip: true}, {Path: "kept.bin"}, {Path: "flat", IsDir: true, NoRec: true}}})
			return []string{"f.yaml"}
		}},
	}
}

// readMeta: the .dud of dir as Model/Init.meta (index, config.yaml, .gitignore, rclone.conf, cache/)
func readMeta(dir string) string {
	opt := func(name string) string {
		b, err := os.ReadFile(filepath.Join(dir, ".dud", name))
		if err != nil {
			return "None"
		}
		return "(Some (" + cx(b) + "))"
	}
	st, err := os.Stat(filepath.Join(dir, ".dud", "cache"))
	return fmt.Sprintf("Model.Init.mkMeta %s %s %s %s %s", opt("index"), opt("config.yaml"), opt(".gitignore"), opt("rclone.conf"), cbool(err == nil && st.IsDir()))
}

func hashConfig(p *Project) string {
	h := sha256.New()
	for _, f := range []string{"config.yaml", "rclone.conf", ".gitignore", "index"} {
		b, _ := os.ReadFile(filepath.Join(p.Root, ".dud", f))
		fmt.Fprintf(h, "%s:%d:", f, len(b))
		h.Write(b)
	}
	return fmt.Sprintf("%x", h.Sum(nil))
}

func runIdem(o *opts) {
	r := newRng(o.seed)
	s := newSummary("idem", o.seed, o.tier)
	maxLen := 3
	if o.tier == "thorough" {
		maxLen = 4
	}
	cmds := []Cmd{{Kind: "commit"}, {Kind: "commit", Copy: true}, {Kind: "checkout"}, {Kind: "checkout", Copy: true}}
	var seqs [][]int
	var rec func(prefix []int)
	rec = func(prefix []int) {
		if len(prefix) > 0 {
			seqs = append(seqs, append([]int{}, prefix...))
		}
		if len(prefix) == maxLen {
			return
		}
		for i := range cmds {
			rec(append(prefix, i))
		}
	}
	rec(nil)
	if o.tier == "quick" {
		// quick: all sequences of length <= 2 on every fixture, length 3 sampled
		var keep [][]int
		for _, sq := range seqs {
			if len(sq) <= 2 || r.chance(1, 3) {
				keep = append(keep, sq)
			}
		}
		seqs = keep
		s.Extra["exhaustive"] = "all sequences of length <= 2; length 3 sampled"
	} else {
		s.Extra["exhaustive"] = "all sequences of length <= 4 over the four commands"
	}
	var all []*Transition
	var icases []string
	distinct := map[string]bool{}
	sc := 0
	fx := fixtures()
	for fi, f := range fx {
		hangs := 0
		for _, sq := range seqs {
			if hangs >= 2 {
				break // two commands that had to be killed are evidence enough for this fixture
			}
			sc++
			rr := r.fork()
			base := scenarioDir(o, "idem", sc)
			p := newProject(o, base, []string{"in", "abs"}[sc%2])
			p.init()
			stages := f.build(p, rr)
			if res := p.dud("", append([]string{"stage", "add"}, stages...)...); res.Exit != 0 {
				must(fmt.Errorf("idem setup: %s", res.Stderr))
			}
			first := cmds[rr.intn(2)]
			res := p.dud("", first.argv()...)
			if res.Exit != 0 {
				must(fmt.Errorf("idem initial commit: %s", res.Stderr))
			}
			prev := first
			var w *World
			for k, ci := range sq {
				c := cmds[ci]
				// now and then on a stage subset
				if len(stages) > 1 && rr.chance(1, 4) {
					c.Targets = []string{stages[rr.intn(len(stages))]}
				}
				spec := 16
				// a REPEAT is the same command on the same stages (or on a subset of what the
				// previous one covered); the same verb on more stages is a different command
				covered := len(prev.Targets) == 0 || (len(c.Targets) == 1 && len(prev.Targets) == 1 && c.Targets[0] == prev.Targets[0])
				if c.Kind == prev.Kind && c.Copy == prev.Copy && covered {
					spec = 2
				}
				t, w2 := p.do(c, nil, want(spec, 13), nil, w)
				w = w2
				if p.Hung {
					hangs++
					t.Info["hung"] = true
				}
				t.Info["scenario"] = sc
				t.Info["fixture"] = f.name
				t.Info["sequence"] = fmt.Sprint(sq)
				t.Info["position"] = k
				all = append(all, t)
				prev = Cmd{Kind: c.Kind, Copy: c.Copy, Targets: c.Targets}
			}
			distinct[fmt.Sprintf("%d|%v", fi, sq)] = true
			s.count("fixture:" + f.name)
			s.count(fmt.Sprintf("len:%d", len(sq)))
			rmrf(base)
		}
		// init re-run: from the root and from a sub-directory
		for _, cwd := range []string{"", "sub"} {
			sc++
			base := scenarioDir(o, "idem", sc)
			p := newProject(o, base, "in")
			p.init()
			stages := f.build(p, r.fork())
			must(os.MkdirAll(filepath.Join(p.Root, "sub"), 0o755))
			p.dud("", append([]string{"stage", "add"}, stages...)...)
			p.dud("", "commit")
			cfgFile := filepath.Join(p.Root, ".dud", "config.yaml")
			fh, err := os.OpenFile(cfgFile, os.O_APPEND|os.O_WRONLY, 0o644)
			must(err)
			fmt.Fprintln(fh, "remote: /somewhere/else")
			fh.Close()
			pre := p.observe()
			hc := hashConfig(p)
			mpre := readMeta(filepath.Join(p.Root, cwd))
			res := p.dud(cwd, "init")
			post := p.observe()
			mpost := readMeta(filepath.Join(p.Root, cwd))
			changed := hashConfig(p) != hc
			// the nested project created by init in a sub-directory is not part of the parent's state
			if cwd != "" {
				post.Root.get("sub").set(".dud", nil)
			}
			id := len(icases) + 1
			icases = append(icases, fmt.Sprintf("mkIC %d\n (%s)\n %s\n (%s) %s\n (%s)\n (%s)", id, pre.coq(), cbool(res.Exit == 0), post.coq(), cbool(changed), mpre, mpost))
			s.CaseIndex[fmt.Sprintf("init-%d", id)] = map[string]interface{}{"cmd": "dud init", "cwd": cwd, "exit": res.Exit, "fixture": f.name}
			s.count("init cwd:" + cwd)
			distinct["init"+cwd+f.name] = true
			rmrf(base)
		}
	}
	s.Cases = len(all) + len(icases)
	s.Nontrivial = len(distinct)
	s.Rule = "fixtures {file, directory tree, 2-stage pipeline} x sequences over {commit, commit --copy, checkout, checkout --copy} after an initial commit (same command repeated: physically identical project; different command: same cache, same stage records, same logical workspace), incl. stage subsets; `dud init` re-run from the root and from a sub-directory of an initialised project; every case is non-trivial; distinct by (fixture, sequence)"
	if len(all) > 0 {
		s.Samples = append(s.Samples, all[0].Info, all[len(all)/2].Info)
	}
	emitTransitions(o, "idem", all, s, 12)
	// init cases use their own ids: offset them so they do not collide
	writeShards(o.out, "init", sysImports, "icase", "run_init", icases, 50, s)
	s.write(o.out)
	rmrf(filepath.Join(o.out, "w"))
}

func runEffects(o *opts) {
	r := newRng(o.seed)
	s := newSummary("effects", o.seed, o.tier)
	n := 24
	if o.tier == "thorough" {
		n = 200
	}
	if o.n > 0 {
		n = o.n
	}
	var all []*Transition
	distinct := map[string]bool{}
	for i := 0; i < n; i++ {
		rr := r.fork()
		base := scenarioDir(o, "effects", i)
		p := newProject(o, base, []string{"in", "abs", "xdev"}[rr.intn(3)])
		if o.shm == "" {
			p = newProject(o, base, "in")
		}
		p.init()
		shape := []string{"file-input", "file-input", "skip-file-output", "dir-input", "skip-dir-output", "link-input", "input-below-norec-output", "input-below-norec-output"}[rr.intn(8)]
		rec := &StageRec{Cmd: "echo s.yaml >> .runlog"}
		var pool [][]byte
		must(os.WriteFile(filepath.Join(p.Root, "out.txt"), genContent(rr, &pool), 0o644))
		rec.Out = []Art{{Path: "out.txt"}}
		d5 := false
		switch shape {
		case "file-input":
			must(os.MkdirAll(filepath.Join(p.Root, "in"), 0o755))
			must(os.WriteFile(filepath.Join(p.Root, "in", "a.txt"), genContent(rr, &pool), 0o644))
			must(os.WriteFile(filepath.Join(p.Root, "b.txt"), genContent(rr, &pool), 0o644))
			rec.In = []Art{{Path: "b.txt"}, {Path: "in/a.txt"}}
		case "link-input":
			must(os.WriteFile(filepath.Join(p.Root, "real.txt"), []byte("real"), 0o644))
			must(os.Symlink("real.txt", filepath.Join(p.Root, "lnk.txt")))
			rec.In = []Art{{Path: "real.txt"}}
		case "input-below-norec-output":
			// a non-recursive directory output with several adjacent sub-directories; files below
			// them are not owned by anybody and may be plain inputs
			d := filepath.Join(p.Root, "nr")
			must(os.MkdirAll(d, 0o755))
			must(os.WriteFile(filepath.Join(d, "top.txt"), genContent(rr, &pool), 0o644))
			nsub := 2 + rr.intn(3)
			for k := 0; k < nsub; k++ {
				sd := filepath.Join(d, fmt.Sprintf("cfg_%c", 'a'+k))
				must(os.MkdirAll(sd, 0o755))
				must(os.WriteFile(filepath.Join(sd, "params.txt"), genContent(rr, &pool), 0o644))
			}
			rec.Out = append(rec.Out, Art{Path: "nr", IsDir: true, NoRec: true})
			rec.In = []Art{{Path: fmt.Sprintf("nr/cfg_%c/params.txt", 'a'+rr.intn(nsub))}}
		case "skip-file-output":
			must(os.WriteFile(filepath.Join(p.Root, "metrics.json"), []byte(`{"acc": 1}`), 0o644))
			rec.Out = append(rec.Out, Art{Path: "metrics.json", Skip: true})
		case "dir-input":
			t := genTree(rr, 0, treeOpts{maxDepth: 1, maxFan: 3}, &pool, nil)
			t.set("always", nFile([]byte("x")))
			materialize(filepath.Join(p.Root, "srcdir"), t, p.CacheDir)
			rec.In = []Art{{Path: "srcdir", IsDir: true}}
			d5 = true
		case "skip-dir-output":
			t := genTree(rr, 0, treeOpts{maxDepth: 1, maxFan: 3}, &pool, nil)
			t.set("always", nFile([]byte("x")))
			materialize(filepath.Join(p.Root, "reports"), t, p.CacheDir)
			rec.Out = append(rec.Out, Art{Path: "reports", IsDir: true, Skip: true})
			d5 = true
		}
		p.writeStage("s.yaml", rec)
		if res := p.dud("", "stage", "add", "s.yaml"); res.Exit != 0 {
			must(fmt.Errorf("effects setup: %s", res.Stderr))
		}
		s.count("shape:" + shape)
		tagIt := func(t *Transition, step string) {
			t.Info["scenario"] = i
			t.Info["step"] = step
			t.Info["shape"] = shape
			if d5 {
				t.Info["directory_input_or_skip_cache_directory"] = true
			}
			// what the user DEFINED as plain inputs / skip-cache outputs
			for _, a := range rec.In {
				t.Prot = append(t.Prot, a.Path)
			}
			for _, a := range rec.Out {
				if a.Skip {
					t.Prot = append(t.Prot, a.Path)
				}
			}
			all = append(all, t)
		}
		cp := rr.chance(1, 2)
		t, w := p.do(Cmd{Kind: "commit", Copy: cp}, nil, want(10, 11, 13, 7), nil, nil)
		tagIt(t, "commit")
		distinct[shape+fmt.Sprint(cp)+t.Pre.Root.coq()] = true
		t, w = p.do(Cmd{Kind: "status"}, nil, want(2), nil, w)
		tagIt(t, "status")
		t, w = p.do(Cmd{Kind: "graph"}, nil, want(2), nil, w)
		tagIt(t, "graph")
		t, w = p.do(Cmd{Kind: "run"}, nil, want(10, 8, 9), nil, w)
		tagIt(t, "run")
		t, w = p.do(Cmd{Kind: "checkout", Copy: rr.chance(1, 2)}, nil, want(10, 8, 9), nil, w)
		tagIt(t, "checkout")
		t, w = p.do(Cmd{Kind: "commit", Copy: rr.chance(1, 2)}, nil, want(10, 13, 7), nil, w)
		tagIt(t, "commit again")
		rmrf(base)
		if p.CacheCfg != "" && filepath.Dir(p.CacheDir) != base {
			rmrf(filepath.Dir(p.CacheDir))
		}
	}
	// a stage whose working directory lies inside its own (absent) directory output: whatever appears
	// in the workspace must be the command's doing, and the command (`true`) creates nothing. The
	// model has no working directories: statements only (obs 9).
	for k := 0; k < 3; k++ {
		base := scenarioDir(o, "effects", 800+k)
		p := newProject(o, base, []string{"in", "rel", "abs"}[k])
		p.init()
		must(os.WriteFile(filepath.Join(p.Root, "in.txt"), []byte("input"), 0o644))
		wd := []string{"out", "out/work", "out/a/b"}[k]
		p.writeStage("w.yaml", &StageRec{Cmd: "true", Wd: wd, In: []Art{{Path: "in.txt"}}, Out: []Art{{Path: "out", IsDir: true}}})
		if res := p.dud("", "stage", "add", "w.yaml"); res.Exit != 0 {
			must(fmt.Errorf("effects setup: %s", res.Stderr))
		}
		for _, c := range []Cmd{{Kind: "run"}, {Kind: "status"}, {Kind: "run", Targets: []string{"w.yaml"}}} {
			t, _ := p.do(c, nil, want(14, 8, 9, 13), nil, nil)
			t.Obs = append(t.Obs, 9)
			t.Info["scenario"] = 800 + k
			t.Info["step"] = c.Kind + " with working-dir " + wd + " inside the absent output directory"
			t.Info["shape"] = "working-dir-inside-absent-output"
			all = append(all, t)
		}
		s.count("shape:working-dir-inside-absent-output")
		distinct[fmt.Sprintf("wd%d", k)] = true
		rmrf(base)
	}
	// a stage whose command FAILS before touching anything: its outputs (a cached one, linked or copied,
	// and a skip-cache one) and inputs are the user's, dud leaves them exactly as they are. (The model's
	// commands do not fail: statements only, obs 9.)
	for k := 0; k < 4; k++ {
		base := scenarioDir(o, "effects", 700+k)
		p := newProject(o, base, []string{"in", "rel", "abs", "in"}[k])
		p.init()
		must(os.WriteFile(filepath.Join(p.Root, "in.txt"), []byte("GOOD input"), 0o644))
		must(os.WriteFile(filepath.Join(p.Root, "out.bin"), []byte("built from the good input"), 0o644))
		must(os.WriteFile(filepath.Join(p.Root, "metrics.json"), []byte("{\"acc\": 1}"), 0o644))
		must(os.MkdirAll(filepath.Join(p.Root, "outdir", "sub"), 0o755))
		must(os.WriteFile(filepath.Join(p.Root, "outdir", "sub", "part.txt"), []byte("part"), 0o644))
		cmd := []string{"grep -q GOOD in.txt && cp in.txt out.bin", "false", "exit 3", "grep -q GOOD in.txt"}[k]
		p.writeStage("f.yaml", &StageRec{Cmd: cmd, In: []Art{{Path: "in.txt"}},
			Out: []Art{{Path: "metrics.json", Skip: true}, {Path: "out.bin"}, {Path: "outdir", IsDir: true}}})
		if res := p.dud("", "stage", "add", "f.yaml"); res.Exit != 0 {
			must(fmt.Errorf("effects setup: %s", res.Stderr))
		}
		cargs := []string{"commit"}
		if k%2 == 1 {
			cargs = append(cargs, "--copy")
		}
		if res := p.dud("", cargs...); res.Exit != 0 {
			must(fmt.Errorf("effects commit: %s", res.Stderr))
		}
		must(os.WriteFile(filepath.Join(p.Root, "in.txt"), []byte("BAD input"), 0o644)) // now out of date, and the command fails
		for _, c := range []Cmd{{Kind: "run"}, {Kind: "run", Targets: []string{"f.yaml"}, Single: true}} {
			t, _ := p.do(c, nil, want(5, 14, 21, 8, 9, 13), nil, nil)
			t.Obs = append(t.Obs, 9)
			t.Info["scenario"] = 700 + k
			t.Info["step"] = "run of an out-of-date stage whose command fails: " + cmd
			t.Info["shape"] = "failing-command"
			t.Prot = append(t.Prot, "in.txt", "metrics.json")
			all = append(all, t)
		}
		s.count("shape:failing-command")
		distinct[fmt.Sprintf("fail%d", k)] = true
		rmrf(base)
		if p.CacheCfg != "" && filepath.Dir(p.CacheDir) != base {
			rmrf(filepath.Dir(p.CacheDir))
		}
	}
	// a project whose cache directory does not exist yet (a fresh clone: .dud/cache is git-ignored):
	// read-only commands do not create it
	for k := 0; k < 2; k++ {
		base := scenarioDir(o, "effects", 900+k)
		p := newProject(o, base, []string{"in", "rel"}[k])
		p.init()
		must(os.WriteFile(filepath.Join(p.Root, "in.txt"), []byte("input"), 0o644))
		must(os.WriteFile(filepath.Join(p.Root, "out.txt"), []byte("output"), 0o644))
		p.writeStage("s.yaml", &StageRec{Cmd: "true", In: []Art{{Path: "in.txt"}}, Out: []Art{{Path: "out.txt"}}})
		if res := p.dud("", "stage", "add", "s.yaml"); res.Exit != 0 {
			must(fmt.Errorf("effects setup: %s", res.Stderr))
		}
		os.Remove(p.CacheDir)
		for _, c := range []Cmd{{Kind: "status"}, {Kind: "graph"}, {Kind: "status", Targets: []string{"s.yaml"}}} {
			t, _ := p.do(c, nil, want(2, 13), nil, nil)
			t.Info["scenario"] = 900 + k
			t.Info["step"] = c.Kind + " in a project without a cache directory"
			t.Info["shape"] = "no-cache-directory"
			all = append(all, t)
		}
		s.count("shape:no-cache-directory")
		rmrf(base)
	}
	s.Cases = len(all)
	s.Nontrivial = len(distinct)
	s.Rule = "stages with plain file inputs (also nested, also beside a symlink), a directory input, a skip-cache file output, a skip-cache directory output x {commit, status, graph, run, checkout, commit again} x strategies x cache placement; inputs and skip-cache artifacts must be physically untouched, read-only commands must leave the project identical; every case is non-trivial; distinct by (shape, strategy, workspace)"
	if len(all) > 0 {
		s.Samples = append(s.Samples, all[0].Info, all[len(all)/2].Info)
	}
	emitTransitions(o, "effects", all, s, 12)
	s.write(o.out)
	rmrf(filepath.Join(o.out, "w"))
}
