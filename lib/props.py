"""Per-property tables for ./check: which harness families feed a property, which facts file,
what is trusted."""

ALLOWED_AXIOMS = set()  # no axiom is expected under any property theorem

TRUSTED_BASE = [
    "Coq 8.16.1 kernel, coqc, vm_compute (no native_compute)",
    "Coq standard library only (no std++, Equations, Program, CoqHammer in the sources); axioms: none - every theorem "
    "of Properties/*.v answers 'Closed under the global context' to Print Assumptions (checked on every run), "
    "no Axiom/Parameter/Conjecture/Admitted/admit anywhere in /verif/coq (grep on every run); thorough tier: coqchk -o",
    "no extraction: the model is evaluated inside Coq (vm_compute), hence no Extract Constant / Extract Inductive",
    "source-facts extractor (harness/facts.go, go/ast) regenerating SourceFacts.v from /repo on every run; "
    "Facts/FactsOK_<ID>.v recompiled against it",
    "ptrace monitor harness/sysmon/sysmon.c (numbering, killing and failing of mutating system calls), "
    "harness/fakebin/rclone (stand-in for rclone: copies exactly the listed existing files, never overwrites)",
    "hand-written Gallina model tied to /repo by differential execution (Go harness /verif/harness, "
    "canonicalisation of real file systems into model terms, generated cases_*.v evaluated by coqc)",
    "Gallina BLAKE3 (Base/Blake3.v) validated on the 21 official vectors",
]

BASELINE_OFF = ("cd /repo && go test -vet=off -count=1 -timeout 25m ./...")
HOOK_COMMITS = ["6998a80 verif hook: worker-pool limits and forced copy path behind build tag verif"]

PROPS = {
    "C14": dict(
        facts=True,
        families=[dict(name="c14"), dict(name="race", race=True), dict(name="hist", args=["-specs", "7", "-n", "40"])],
        level_text="Theorems C14_checksum / C14_error_propagates / C14_sequence: for every byte string, read "
                   "chunking, buffer size, pool state and sequence of computations the model of ChecksumBuffer "
                   "returns hex(H(data)) for any incremental hasher meeting the Reset/Write/Sum contract; "
                   "C14_blake3_vectors validates the Gallina BLAKE3 on the 21 official vectors. The model is "
                   "tied to the code by running checksum.Checksum/ChecksumBuffer and `dud checksum` on scripted "
                   "readers and comparing with the Gallina BLAKE3 inside Coq. proof, partial: the BLAKE3 "
                   "library internals and sync.Pool are assumed through the contract and sampled.",
        level_note="Assumes the hasher contract and sync.Pool exclusivity; concurrency is sampled (16 goroutines), "
                   "not proved. Trusted: Coq kernel + vm_compute, the Go harness, hex transport of cases.",
        assumptions=[
            "the BLAKE3 library implements the incremental contract sum(reset;write*) = H(concat) "
            "(compared on every case with the Gallina BLAKE3, not proved)",
            "sync.Pool hands an object to one goroutine at a time",
        ],
    ),
    "C10": dict(
        families=[dict(name="own"), dict(name="hostile", args=["-specs", "5,11"])],
        level_text="Theorems C10_invariant, C10_exact, C10_find_dir_owner, C10_order_independent, C10_owner_unique, "
                   "C10_reload, C10_intra_stage(+_complete) over the model of FindDirArtifactOwnerForPath / Validate / "
                   "AddStage / RemoveStage / index reload: every reachable index has pairwise non-overlapping outputs, "
                   "a stage is rejected exactly when an overlap exists, acceptance is permutation-invariant, the sorted "
                   "index reloads. Tied to the code by running the exported AddStage/Validate/ToFile/FromFile on all "
                   "ordered pairs (quick) / triples (thorough) of stages over a shared-prefix path universe and "
                   "comparing with the model and a reference overlap relation inside Coq.",
        level_note="Artifact paths are Clean relative paths without '..' (what stage.FromFile produces and Validate "
                   "admits); is-dir is ignored by ownership as in the code. Trusted: Coq kernel, the Go harness.",
        assumptions=["artifact paths are Clean, relative, without '..' components (good_art)",
                     "stage files are loaded by the real stage.FromFile; YAML is not modelled here (C17)"],
    ),
    "C05": dict(
        facts=True,
        families=[dict(name="edits", args=["-specs", "6,26"]), dict(name="tree", args=["-specs", "15"]), dict(name="same"), dict(name="pipe", args=["-specs", "6"]),
                  dict(name="oldschema", args=["-specs", "15"])],
        level_text="Theorems C05_iff (ContentsMatch is true exactly when the workspace entry, links followed, equals the "
                   "tree the recorded checksum stands for and that tree is in the cache), C05_file_iff, C05_skip, "
                   "C05_after_commit, C05_short_circuit_agrees, C05_same_contents (whole-buffer comparison = byte "
                   "equality for every buffer size), C05_text_uptodate_iff / C05_text_dir_iff / C05_text_order_independent "
                   "(the human text, modelled in Model/Render.v, reads up to date exactly when the flags do, whatever "
                   "the map order) and C05_text_empty_directory_refuted (finding D17b), over the model of status.go / "
                   "same.go / artifact.Status.String(). Tied to the code by `dud status --debug` after every kind of "
                   "single edit on committed trees (model vs JSON, an independent truth computed in Coq from the "
                   "observed workspace and cache, the human text compared byte for byte with the rendering model), "
                   "and on pipelines whose stages share plain inputs committed at different times.",
        level_note="Hypotheses: collision-free hash on the strings involved, digests >= 3 chars, the manifest of a "
                   "non-recursive artifact lists no directory (found necessary by machine-checked counterexamples). The "
                   "8 MiB buffer boundary is covered by the theorem for every buffer size, not by big files. Human text "
                   "rendering: see known findings.",
        assumptions=["H injective on the byte strings involved (collision freedom)",
                     "no symlinked directories on artifact paths; links into the cache are recognised lexically"],
    ),
    "C06": dict(
        facts=True,
        families=[dict(name="prestate", args=["-specs", "4,5,21"]), dict(name="corrupt", args=["-specs", "4"])],
        level_text="Theorems C06_frame (a successful checkout `preserved` every pre-existing entry: unchanged, newly "
                   "created, a matching link replaced by a copy of the very object, or a directory whose entries are "
                   "preserved), C06_file_frame, C06_obstructed_fails, over the model of checkout.go for every cache, "
                   "artifact, strategy and pre-existing workspace. Tied to the code by checking out over generated "
                   "pre-existing states (absent, correct/other/dangling/foreign links, equal/different files, "
                   "dir-for-file, file-for-dir, extra files) and evaluating `preserved` in Coq on the observed "
                   "before/after trees, also on failing runs. Command level: C06_command_frame, C06_command_obstructed_fails (an entry in the way of any output of any stage in scope fails the whole command, wherever the stage comes among the targets).",
        level_note="The model is functional: on failure it returns no state; 'left intact on failure' is what the "
                   "correspondence run observes (spec 4 on failing runs). O_EXCL on the copy target is a source fact.",
        assumptions=["no symlinked directories on artifact paths"],
    ),
    "C08": dict(
        families=[dict(name="pipe", args=["-specs", "18,23,5,27,28"])],
        level_text="Theorems C08_once_and_order, C08_owners_visited_first, C08_scope, C08_cycle_run/commit/checkout/status, "
                   "C08_cycle_never_executed, C08_terminates, C08_commit_scope_exact / C08_commit_others_untouched / "
                   "C08_checkout_others_untouched / C08_readonly_world / C08_status_scope_exact (a command on explicit "
                   "targets visits exactly the targets' upstream closure and leaves the stage files, index and output "
                   "artifacts of every other stage untouched) over the model of Index.Run/Commit/Checkout/Status for every "
                   "index, target list, cache and stage-command semantics. Tied to the code by running generated DAGs "
                   "(diamonds, skip connections, inputs nested in directory outputs) and cyclic graphs through the CLI with "
                   "real shell commands that append to an execution log; the log is validated in Coq; commit / checkout / "
                   "status on one stage of a larger pipeline must leave every out-of-scope stage file (bytes, inode, mtime) "
                   "and artifact untouched (scope computed in Coq).",
        level_note="graph/push/fetch share the skeleton in Go but only their traversal/exit code is modelled; the order "
                   "of map iteration is replaced by list order and the theorems hold for every index order.",
        assumptions=["stage commands behave as `rm -f dst && cat srcs > dst` in the correspondence runs"],
    ),
    "C19": dict(
        families=[dict(name="corrupt", args=["-specs", "5"])],
        level_text="Theorems C19_verified_copy, C19_tree_verified, C19_corrupt_fails, C19_success_no_corruption over "
                   "the model of checkoutFile/checkoutDir: a copy checkout that succeeds placed only bytes hashing to the "
                   "recorded checksums; a corrupted file object reachable through the manifests makes it fail. Tied to "
                   "the code by damaging a reachable file object (flip first/middle/last byte, truncate, append) and "
                   "running `dud checkout --copy`. Command level (StageLiftProofs): C19_command_success_verified, C19_command_corrupt_fails - success of `dud checkout --copy` over all targets, outputs and upstream stages implies every file output hashes to its recorded checksum; one corrupted reachable object anywhere in scope makes the command fail.",
        level_note="Corruption of manifest objects is outside the property (files only).",
        assumptions=[],
    ),
    "C12": dict(
        facts=True,
        families=[dict(name="lock"), dict(name="prestate", args=["-specs", "13"]), dict(name="hostile", args=["-specs", "13"]),
                  dict(name="pipe", args=["-specs", "13"])],
        level_text="Theorems C12_mutex, C12_refused_clean, C12_released, C12_quiescent_unlocked, C12_bounded over a "
                   "transition system of any number of dud processes with arbitrary interleaving (atomic O_EXCL acquire, "
                   "release of the path that was locked, pull's unlock/relock, config get/set without chdir), C12_work_while_held (for every "
                   "subcommand descriptor the work happens only between creation and removal of the lock file), plus "
                   "C12_prerepair_refuted (the cwd-relative release leaves the lock behind). proof, partial: OS scheduling "
                   "and O_EXCL atomicity are assumptions. Tied to the code by running every subcommand x invocation "
                   "directory x outcome class x pre-existing lock and comparing exit class and lock presence with the model, "
                   "by N concurrent `dud run` released together with an atomic-mkdir sentinel in the stage command, and by the "
                   "ptrace log of single invocations of every locking subcommand (pull included) projected to lock-created / "
                   "lock-removed / other-mutating-call events: the lock events must be the model's and every change must "
                   "happen while the lock is held.",
        level_note="The descriptor table (which subcommand locks, chdirs, relocks) is asserted in Model/Lock.v and checked "
                   "against src/cmd through the matrix runs. Killed processes are outside the property.",
        assumptions=["open(O_CREAT|O_EXCL) is atomic", "a process is not killed (exits on its own)"],
    ),
    "C13": dict(
        facts=True,
        families=[dict(name="pool", timeout=1500), dict(name="race", race=True)],
        level_text="Theorems C13_flat_terminates (every schedule of one directory level has at most 5N+4 steps), "
                   "C13_flat_progress / C13_flat_can_finish (no deadlock with >= 1 dedicated worker even if the shared "
                   "pool is never available), C13_stuck_without_dedicated, C13_flat_joined, C13_flat_tokens, "
                   "C13_flat_result, C13_exec_total / C13_exec_result_sound / C13_exec_top_level (trees) over a labelled "
                   "transition system of feeder, collector, spawner and workers with errgroup cancellation, for every N, "
                   "S >= 0, D >= 1 and every step sequence. proof, partial: the counter abstraction carries no data; "
                   "'same result as sequential' is the correspondence of the sequential model of Model/Cache.v with the "
                   "real binary run under pool sizes {0,1,2,64} x {1,2}, GOMAXPROCS {1,2,4,16}, deep chains and wide "
                   "directories beyond the pool, and an un-committable entry at random positions, with a watchdog.",
        level_note="Data races and goroutine leaks are not proved and, through the CLI, not observed; Go channel/select/"
                   "errgroup semantics are as modelled in Model/Sched.v. Pool sizes are set through the verif build-tag hook.",
        assumptions=["instances interact only through the shared-token counter and downward cancellation",
                     "Go channel, select and errgroup semantics as modelled"],
    ),
    "C01": dict(
        families=[dict(name="tree", args=["-specs", "3,5,11,14"]), dict(name="pipe", args=["-specs", "3,11"]),
                  dict(name="hist", args=["-specs", "3,5,11,14", "-n", "50"])],
        level_text="Theorems C01_roundtrip (commit then checkout into an absent slot reproduces the tracked tree, links "
                   "followed, for both strategies on either side), C01_commit_ok, C01_commit_keeps_logical(_links), "
                   "C01_invariants_preserved/_initial, C01_nonutf8_fails over the model of commit.go/checkout.go with the "
                   "real JSON manifest codec (round trip proved). Tied to the code by committing generated trees (hostile "
                   "entry names, duplicate contents, empty files/dirs, 64 KiB sizes, invalid UTF-8) as file / directory / "
                   "non-recursive artifacts and checking out into the same project, the moved project and a clone, under "
                   "both strategies, four cache placements (incl. another filesystem) and two invocation directories.",
        level_note="Premises found necessary by machine-checked counterexamples: no file of the tree has bytes that decode "
                   "as a directory manifest with flagged entries (benign/tame), no dangling directory references in the "
                   "cache (man_present; holds from the empty cache on). Project relocation and argument re-basing are "
                   "exercised by the correspondence runs, not modelled (the model has no absolute paths).",
        assumptions=["H collision-free on the strings involved, digests >= 3 chars of valid UTF-8 text",
                     "entry names are single path components; no symlinked directories on artifact paths"],
    ),
    "C02": dict(
        facts=True,
        families=[dict(name="tree", args=["-specs", "1,12"]), dict(name="hist", args=["-specs", "1,12"]),
                  dict(name="pipe", args=["-specs", "1,12", "-n", "10"]), dict(name="fault", args=["-specs", "41,48"]),
                  dict(name="remote", args=["-specs", "32,33,36"]), dict(name="race", race=True)],
        level_text="Theorems C02_history / C02_step / C02_commit / C02_initial: for every history of commands of the "
                   "whole-program model from any state with a well-formed cache (in particular the empty one), every "
                   "object is keyed by the hash of its bytes with mode 0444 and no object ever changes or disappears; "
                   "C02_history_with_transfers extends this to histories that mix local commands with push, fetch and "
                   "transfers aborted part-way (local cache AND remote). "
                   "Tied to the code by re-hashing, inside Coq with the Gallina BLAKE3, every new or changed object of "
                   "the observed cache after every command of tree, edit-history and pipeline scenarios (both strategies, "
                   "rename-able and cross-device caches), and checking monotonicity against the previous observation.",
        level_note="Premise: H collision-free. The permission fix-up after rclone transfers belongs to C11. User edits in "
                   "the scenarios never write through cache links.",
        assumptions=["H collision-free on the strings involved", "users do not write through links into the cache"],
    ),
    "C07": dict(
        families=[dict(name="effects", args=["-specs", "2,5,8,9,10,13,14,21"]), dict(name="pipe", args=["-specs", "2,8,9,13"]), dict(name="corrupt", args=["-specs", "8"]), dict(name="hist", args=["-specs", "5,14", "-n", "50"])],
        level_text="Theorems C07_readonly, C07_no_stage_write, C07_no_cache_write, C07_failed_step_unchanged, "
                   "C07_run_only_commands_write, C07_run_without_effects, C07_inputs_untouched, C07_skip_outputs_untouched "
                   "over the whole-program model. proof, partial: absence of other system calls is an audit of runs. Tied "
                   "to the code by full project snapshots (workspace, cache, stage files, index) before/after every "
                   "command of pipeline histories and of stages with plain file inputs, directory inputs and skip-cache "
                   "outputs.",
        level_note="Known finding D5: directory inputs / skip-cache directories are committed into the cache (the theorem "
                   "is stated for regular-file entries; the directory case is refuted by a witness). frame_ok: the "
                   "artifacts of the index do not overlap the input's path.",
        assumptions=["stage commands in the correspondence runs write only their own outputs"],
    ),
    "C09": dict(
        families=[dict(name="pipe", args=["-specs", "19,22,18"])],
        level_text="Theorems C09_executed_or_unchanged (after a successful recursive run every visited stage with a command "
                   "executed after all executed upstream stages, or its definition, plain inputs, owned inputs and outputs "
                   "are as committed, in the FINAL workspace), C09_rerun_quiet, C09_rerun_sources, C09_outputs_fresh (the 'Hence' "
                   "clause: when commands are functions of their inputs and commits were made only after successful "
                   "runs, every visited stage's outputs are what its command produces in the final workspace, "
                   "contents read through cache links), C09_outputs_produced, C09_committed_fresh_partial over the model of "
                   "Index.Run with the repaired staleness rules, for every framed stage-command semantics. Tied to the "
                   "code by histories over {edit source, edit definition, damage/delete output, run [targets] [-s], "
                   "commit} on generated DAGs with real shell commands; after each recursive run the outputs are "
                   "recomputed from the sources in Coq.",
        level_note="Known finding D19: downstream of a stage without inputs everything re-runs on every run (the last "
                   "sentence of the property is false there; exact characterisation proved).",
        assumptions=["stage commands are deterministic and write only their own outputs (exec_framed)",
                     "C09_outputs_fresh: commands are functions of their inputs (exec_functional); no output lies at or under an input its stage does not own (inputs_wf, shown necessary); committed_fresh (established from a clean+fresh snapshot by C09_committed_fresh_partial; for directory artifacts 'a checksum determines the contents' is a premise)",
                     "outputs of different stages and plain inputs do not overlap (idx_wf; C10)"],
    ),
    "C15": dict(
        families=[dict(name="idem", args=["-specs", "2,16"]), dict(name="tree", args=["-specs", "2,16"])],
        level_text="Theorems C15_commit_repeat (a repeated commit returns exactly the same node, cache and record), "
                   "C15_checkout_repeat, C15_mixed_logical, C15_mixed_checkout over the model of commit/checkout; "
                   "C15_init_never_discards, C15_init_ok_iff, C15_init_repeat over Model/Init.v (init refuses exactly "
                   "when the index exists and then changes nothing; the observed .dud before/after every `dud init` "
                   "is compared with init_cmd, a freshly written configuration must be comment-only). Tied to "
                   "the code by all sequences over {commit, commit --copy, checkout, checkout --copy} of length <= 2 "
                   "(length 3 sampled; thorough: all of length <= 4) after an initial commit on file / directory / "
                   "pipeline fixtures incl. stage subsets: a repeated command must leave the whole project physically "
                   "identical (stage records included), a different one the cache, stage records and logical workspace; "
                   "`dud init` re-run from the root and a sub-directory must leave index, config and cache untouched.",
        level_note="`dud init` and byte-identity of stage files (yaml.v2) are observed, not modelled.",
        assumptions=["H collision-free; cache entries sorted (harness canonical form)"],
    ),
    "C16": dict(
        families=[dict(name="hist", args=["-specs", "7"]), dict(name="tree", args=["-specs", "7"]), dict(name="effects", args=["-specs", "7"]), dict(name="pipe", args=["-specs", "7", "-n", "14"])],
        level_text="Theorems C16_function (the recorded checksum equals merkle(path, norec, logical content), a pure function "
                   "that mentions neither strategy nor cache nor old manifest), C16_skip, C16_injective, "
                   "C16_listing_order, C16_dedup. Tied to the code by recomputing, inside Coq with the Gallina BLAKE3 "
                   "and the JSON encoder model, the Merkle checksum of every committed artifact from the observed "
                   "workspace after every commit of tree scenarios and of edit histories (add, delete, modify, rename, "
                   "file<->directory swap, link->copy) with recommits over old manifests, both strategies, four cache "
                   "placements.",
        level_note="Premises found necessary by machine-checked counterexamples: links resolve; no file's bytes decode as "
                   "a directory manifest with flagged/directory entries (ctree). Pool sizes: see C13.",
        assumptions=["H collision-free on the strings involved"],
    ),
    "C17": dict(
        families=[dict(name="stagefile"), dict(name="defedit"), dict(name="pipe", args=["-specs", "38", "-n", "10"])],
        level_text="Theorems C17_normalise, C17_roundtrip(_loaded) (record level, for any YAML codec that round-trips the "
                   "written value), C17_def_ignores_checksums, C17_def_ignores_order, C17_def_checksum (the definition "
                   "checksum changes exactly when command, working dir, or the sorted checksum-blanked artifact sets "
                   "change), C17_def_injective_nf, with trim_space/clean idempotence, and - the last clause, over the "
                   "whole-program model - C17_status_after_commit, C17_status_after_definition_edit, "
                   "C17_status_definition_iff, C17_commit_preserves_definitions (tied by the CLI family defedit), "
                   "over the model of toFileFormat / "
                   "FromFile / CalculateChecksum with the Go JSON encoder model. proof, partial: yaml.v2 is a parameter; "
                   "the correspondence check hammers the round-trip hypothesis with ToFile -> FromFile -> ToFile -> "
                   "FromFile on generated stages over YAML-hazard commands, working dirs and paths with every flag "
                   "combination, and compares CalculateChecksum with the Coq def_checksum (BLAKE3 of the modelled JSON).",
        level_note="Known finding D12: artifact path '<<' (yaml.v2 merge key) does not round-trip. Paths that Clean to "
                   "the same key are not generated (Go map order would decide).",
        assumptions=["yaml.v2 encode/decode round-trips the value written (sampled; false for the key '<<')"],
    ),
    "C18": dict(
        families=[dict(name="hostile", args=["-specs", "5,20"])],
        level_text="Theorems C18_stage_paths (every artifact path and working dir of an accepted stage, joined to any Clean "
                   "absolute root as filepath.Join does, stays at or below the root), C18_stage_rejects, C18_manifest "
                   "(every entry of a decodable manifest lands exactly one level below its directory), "
                   "C18_writes_inside (at any nesting depth), C18_hostile_names, C18_index_line_inside / "
                   "C18_index_line_rejects / C18_hostile_index_noop (an index line is accepted exactly when the stage "
                   "file it names lies below the root; one hostile line makes every command a no-op). Tied to the code "
                   "by hostile stage files "
                   "('..' at every position, absolute paths, as output / input / working dir) through `dud stage add`, "
                   "hostile index lines (../x, absolute, a/../../x) under commit / checkout / status / run / graph, "
                   "and hostile manifests (../x, ../../x, /abs, a/b, '.', '..', empty, path != key, NUL) through checkout, "
                   "checkout --copy, commit, status and pull, with a sentinel tree around the project hashed before and "
                   "after every command.",
        level_note="Containment is lexical: no symlinked directories on the way. The model addresses writes relative to "
                   "the root by construction; that the binary writes only there is observed, not proved.",
        assumptions=["no symlinked directories on artifact paths", "rclone writes only the listed relative paths under its destination"],
    ),
    "C11": dict(
        facts=True,
        families=[dict(name="remote"), dict(name="pipe", args=["-specs", "28", "-n", "14"])],
        level_text="Theorems C11_push_closure, C11_push_fails_on_missing, C11_push_ok_iff, C11_fetch_complete, "
                   "C11_then_checkout (push, lose any subset, fetch: checkout behaves exactly as from the pushed cache "
                   "and every object is 0444), C11_scope, C11_fetch_retry (any number of part-way rclone failures followed by a "
                   "successful fetch: every local object read-only, nothing lost; the pre-repair behaviour refuted, D25) "
                   "over the model of push.go / fetch.go. proof, partial: rclone is "
                   "the function `transfer` (contract emulated by harness/fakebin/rclone). Tied to the code by pushing "
                   "1-3 stage projects (nesting, identical names in different directories, duplicate contents) to a "
                   "partially pre-populated remote, wiping an arbitrary subset of the local cache, fetching, and checking "
                   "out; remote and local object sets are compared with the model and the closure is recomputed in Coq.",
        level_note="A genuine defect found by the proof attempt (fetch merged children by checksum only) was reproduced "
                   "on the binary and repaired. no_slash: file checksums contain no '/'.",
        assumptions=["rclone copies exactly the listed existing files and never overwrites (transfer contract)",
                     "H collision-free on the strings involved"],
    ),
    "C20": dict(
        families=[dict(name="oldschema"), dict(name="race", race=True), dict(name="remote", args=["-specs", "30,31,32,33,34,35"])],
        level_text="Theorems C20_decode_equal (old and current encodings decode to the same manifest), "
                   "C20_rewrite_simulates (rewriting ANY selection of a tree's manifests in the old schema, under their "
                   "own digests with parents re-pointed, gives a cache simulated by the original), C20_checkout_equal, "
                   "C20_status_equal, C20_up_to_date_equal, C20_push_equal, C20_commit_on_top (the operations agree "
                   "across simulated caches). Tied to the code by committing trees (depth <= 3), rewriting the "
                   "manifests of a subset of (sub)directories (all / root only / random / all but root) in the old schema "
                   "with Go's own encoder, re-pointing parents and the stage file, then status, checkout (both "
                   "strategies), status, edit + commit on top, status - compared with the model and the property's "
                   "executable statements in Coq.",
        level_note="Premises found necessary by counterexamples: keys shorter than 3 chars absent (cache_ok + H_has); for "
                   "commit on top no garbage-collected (dangling) directory manifests. Fetch walks the graph of gather.",
        assumptions=["old manifests have all five fields present (as old dud wrote them)"],
    ),
    "C03": dict(
        facts=True,
        families=[dict(name="crash", args=["-specs", "40,41,42"], timeout=2400)],
        level_text="Theorems C03_no_loss (every byte string of every tracked file is retrievable - at its path, through "
                   "a link, or in the cache under its digest - in EVERY cut of a commit, where a directory's cut is the "
                   "full product of its children's cuts, so every goroutine interleaving is included), "
                   "C03_no_loss_checked (the same as the boolean evaluated on observed states), C03_no_torn_object, "
                   "C03_cut_endpoints, C03_checkout_no_loss, C03_metadata_atomic. proof, partial: atomic system calls "
                   "and rename, persistence of completed calls. Tied to the code by killing the real binary (ptrace, all "
                   "threads followed) at the entry of EVERY mutating system call of 15 scenarios (file/dir, first "
                   "commit/recommit over an old manifest, link/copy, rename-able/forced-copy cache, checkout "
                   "link/copy/over matching links, stage add/remove, two-stage pipeline) and evaluating the three "
                   "statements in Coq on the observed state.",
        level_note="Power loss / fsync and SIGKILL delivered inside a system call are outside the model. Source facts: "
                   "stage files and the index are written to a temp file and renamed.",
        assumptions=["each mutating system call is atomic w.r.t. SIGKILL; completed calls persist", "rename(2) is atomic"],
    ),
    "C04": dict(
        facts=True,
        families=[dict(name="fault", args=["-specs", "40,41,43,44,45,46,47"], timeout=2400)],
        level_text="Theorems C04_fail_is_cut, C04_entry_never_missing, C04_retry (from any state a failing call can leave, "
                   "the retry returns exactly the undisturbed result), C04_retry_flat_directory, C04_retry_nested / "
                   "C04_retry_nested_inv (directories of any depth), C04_retry_from_restored_cut / C04_retry_from_cut "
                   "(from EVERY cut of a nested commit, with the moved-away entries put back, the re-run returns the "
                   "undisturbed node, record and objects), C04_rerun_from_cut, C04_norollback_refuted over the cut "
                   "semantics with the repaired rollback. proof, partial: atomic system calls without partial effect; the "
                   "lock release is covered by the correspondence runs and C12. Tied to the code by making "
                   "EVERY mutating system call of 10 commit scenarios fail in turn (EIO/ENOSPC/EACCES, ptrace) and by "
                   "un-committable entries (foreign link, FIFO, dangling cache link) at every position of a tree; "
                   "then the cause is removed and the commit retried: no loss, unlocked, non-zero exit, stage files "
                   "load, retry succeeds and equals the undisturbed final state. Command level: C04_command_missing_output_fails.",
        level_note="The release of the lock file itself is not made to fail. A failing call has no partial effect.",
        assumptions=["a failing system call has no partial effect", "the injected error is transient (gone at the retry)"],
    ),
}
