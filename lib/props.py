"""Per-property tables for ./check: which harness families feed a property, which facts file,
what is trusted."""

ALLOWED_AXIOMS = set()  # no axiom is expected under any property theorem

TRUSTED_BASE = [
    "Coq 8.16.1 kernel, coqc, vm_compute (no native_compute)",
    "Coq stdlib + std++ 1.8.0; no Axiom/Parameter/Admitted in /verif/coq (grep on every run)",
    "hand-written Gallina model tied to /repo by differential execution (Go harness /verif/harness, "
    "canonicalisation of real file systems into model terms, generated cases_*.v evaluated by coqc)",
    "Gallina BLAKE3 (Base/Blake3.v) validated on the 21 official vectors",
]

BASELINE_OFF = ("cd /repo && go test -vet=off -count=1 -timeout 25m ./...")
HOOK_COMMITS = []

PROPS = {
    "C14": dict(
        families=[dict(name="c14")],
        level_text="Theorems C14_checksum / C14_error_propagates / C14_sequence: for every byte string, read "
                   "chunking, buffer size, pool state and sequence of computations the model of ChecksumBuffer "
                   "returns hex(H(data)) for any incremental hasher meeting the Reset/Write/Sum contract; "
                   "C14_blake3_vectors validates the Gallina BLAKE3 on the 21 official vectors. The model is "
                   "tied to the code by running checksum.Checksum/ChecksumBuffer and `dud checksum` on scripted "
                   "readers and comparing with the Gallina BLAKE3 inside Coq. proof, partial: the BLAKE3 "
                   "library internals and sync.Pool are assumed through the contract and sampled.",
        level_note="Assumes the hasher contract and sync.Pool exclusivity; concurrency is sampled (16 goroutines), "
                   "not proved. Trusted: Coq kernel + vm_compute, the Go harness, hex transport of cases.",
        assumptions=[
            "the BLAKE3 library implements the incremental contract sum(reset;write*) = H(concat) "
            "(compared on every case with the Gallina BLAKE3, not proved)",
            "sync.Pool hands an object to one goroutine at a time",
        ],
    ),
    "C10": dict(
        families=[dict(name="own")],
        level_text="Theorems C10_invariant, C10_exact, C10_find_dir_owner, C10_order_independent, C10_owner_unique, "
                   "C10_reload, C10_intra_stage(+_complete) over the model of FindDirArtifactOwnerForPath / Validate / "
                   "AddStage / RemoveStage / index reload: every reachable index has pairwise non-overlapping outputs, "
                   "a stage is rejected exactly when an overlap exists, acceptance is permutation-invariant, the sorted "
                   "index reloads. Tied to the code by running the exported AddStage/Validate/ToFile/FromFile on all "
                   "ordered pairs (quick) / triples (thorough) of stages over a shared-prefix path universe and "
                   "comparing with the model and a reference overlap relation inside Coq.",
        level_note="Artifact paths are Clean relative paths without '..' (what stage.FromFile produces and Validate "
                   "admits); is-dir is ignored by ownership as in the code. Trusted: Coq kernel, the Go harness.",
        assumptions=["artifact paths are Clean, relative, without '..' components (good_art)",
                     "stage files are loaded by the real stage.FromFile; YAML is not modelled here (C17)"],
    ),
}
