"""Per-property tables for ./check: which harness families feed a property, which facts file,
what is trusted."""

ALLOWED_AXIOMS = set()  # no axiom is expected under any property theorem

TRUSTED_BASE = [
    "Coq 8.16.1 kernel, coqc, vm_compute (no native_compute)",
    "Coq stdlib + std++ 1.8.0; no Axiom/Parameter/Admitted in /verif/coq (grep on every run)",
    "hand-written Gallina model tied to /repo by differential execution (Go harness /verif/harness, "
    "canonicalisation of real file systems into model terms, generated cases_*.v evaluated by coqc)",
    "Gallina BLAKE3 (Base/Blake3.v) validated on the 21 official vectors",
]

BASELINE_OFF = ("cd /repo && go test -vet=off -count=1 -timeout 25m ./...")
HOOK_COMMITS = ["1ad419a verif hook: worker-pool limits and forced copy path behind build tag verif"]

PROPS = {
    "C14": dict(
        families=[dict(name="c14")],
        level_text="Theorems C14_checksum / C14_error_propagates / C14_sequence: for every byte string, read "
                   "chunking, buffer size, pool state and sequence of computations the model of ChecksumBuffer "
                   "returns hex(H(data)) for any incremental hasher meeting the Reset/Write/Sum contract; "
                   "C14_blake3_vectors validates the Gallina BLAKE3 on the 21 official vectors. The model is "
                   "tied to the code by running checksum.Checksum/ChecksumBuffer and `dud checksum` on scripted "
                   "readers and comparing with the Gallina BLAKE3 inside Coq. proof, partial: the BLAKE3 "
                   "library internals and sync.Pool are assumed through the contract and sampled.",
        level_note="Assumes the hasher contract and sync.Pool exclusivity; concurrency is sampled (16 goroutines), "
                   "not proved. Trusted: Coq kernel + vm_compute, the Go harness, hex transport of cases.",
        assumptions=[
            "the BLAKE3 library implements the incremental contract sum(reset;write*) = H(concat) "
            "(compared on every case with the Gallina BLAKE3, not proved)",
            "sync.Pool hands an object to one goroutine at a time",
        ],
    ),
    "C10": dict(
        families=[dict(name="own")],
        level_text="Theorems C10_invariant, C10_exact, C10_find_dir_owner, C10_order_independent, C10_owner_unique, "
                   "C10_reload, C10_intra_stage(+_complete) over the model of FindDirArtifactOwnerForPath / Validate / "
                   "AddStage / RemoveStage / index reload: every reachable index has pairwise non-overlapping outputs, "
                   "a stage is rejected exactly when an overlap exists, acceptance is permutation-invariant, the sorted "
                   "index reloads. Tied to the code by running the exported AddStage/Validate/ToFile/FromFile on all "
                   "ordered pairs (quick) / triples (thorough) of stages over a shared-prefix path universe and "
                   "comparing with the model and a reference overlap relation inside Coq.",
        level_note="Artifact paths are Clean relative paths without '..' (what stage.FromFile produces and Validate "
                   "admits); is-dir is ignored by ownership as in the code. Trusted: Coq kernel, the Go harness.",
        assumptions=["artifact paths are Clean, relative, without '..' components (good_art)",
                     "stage files are loaded by the real stage.FromFile; YAML is not modelled here (C17)"],
    ),
    "C05": dict(
        families=[dict(name="edits", args=["-specs", "6"]), dict(name="tree", args=["-specs", "15"])],
        level_text="Theorems C05_iff (ContentsMatch is true exactly when the workspace entry, links followed, equals the "
                   "tree the recorded checksum stands for and that tree is in the cache), C05_file_iff, C05_skip, "
                   "C05_after_commit, C05_short_circuit_agrees, C05_same_contents (whole-buffer comparison = byte "
                   "equality for every buffer size), over the model of status.go / same.go. Tied to the code by `dud "
                   "status --debug` after every kind of single edit on committed trees (model vs JSON, and an "
                   "independent truth computed in Coq from the observed workspace and cache).",
        level_note="Hypotheses: collision-free hash on the strings involved, digests >= 3 chars, the manifest of a "
                   "non-recursive artifact lists no directory (found necessary by machine-checked counterexamples). The "
                   "8 MiB buffer boundary is covered by the theorem for every buffer size, not by big files. Human text "
                   "rendering: see known findings.",
        assumptions=["H injective on the byte strings involved (collision freedom)",
                     "no symlinked directories on artifact paths; links into the cache are recognised lexically"],
    ),
    "C06": dict(
        families=[dict(name="prestate", args=["-specs", "4,5"])],
        level_text="Theorems C06_frame (a successful checkout `preserved` every pre-existing entry: unchanged, newly "
                   "created, a matching link replaced by a copy of the very object, or a directory whose entries are "
                   "preserved), C06_file_frame, C06_obstructed_fails, over the model of checkout.go for every cache, "
                   "artifact, strategy and pre-existing workspace. Tied to the code by checking out over generated "
                   "pre-existing states (absent, correct/other/dangling/foreign links, equal/different files, "
                   "dir-for-file, file-for-dir, extra files) and evaluating `preserved` in Coq on the observed "
                   "before/after trees, also on failing runs.",
        level_note="The model is functional: on failure it returns no state; 'left intact on failure' is what the "
                   "correspondence run observes (spec 4 on failing runs). O_EXCL on the copy target is a source fact.",
        assumptions=["no symlinked directories on artifact paths"],
    ),
    "C08": dict(
        families=[dict(name="pipe", args=["-specs", "18,23,5"])],
        level_text="Theorems C08_once_and_order, C08_owners_visited_first, C08_scope, C08_cycle_run/commit/checkout/status, "
                   "C08_cycle_never_executed, C08_terminates over the model of Index.Run/Commit/Checkout/Status for every "
                   "index, target list, cache and stage-command semantics. Tied to the code by running generated DAGs "
                   "(diamonds, skip connections, inputs nested in directory outputs) and cyclic graphs through the CLI with "
                   "real shell commands that append to an execution log; the log is validated in Coq.",
        level_note="graph/push/fetch share the skeleton in Go but only their traversal/exit code is modelled; the order "
                   "of map iteration is replaced by list order and the theorems hold for every index order.",
        assumptions=["stage commands behave as `rm -f dst && cat srcs > dst` in the correspondence runs"],
    ),
    "C19": dict(
        families=[dict(name="corrupt", args=["-specs", "5"])],
        level_text="Theorems C19_verified_copy, C19_tree_verified, C19_corrupt_fails, C19_success_no_corruption over "
                   "the model of checkoutFile/checkoutDir: a copy checkout that succeeds placed only bytes hashing to the "
                   "recorded checksums; a corrupted file object reachable through the manifests makes it fail. Tied to "
                   "the code by damaging a reachable file object (flip first/middle/last byte, truncate, append) and "
                   "running `dud checkout --copy`.",
        level_note="Corruption of manifest objects is outside the property (files only).",
        assumptions=[],
    ),
    "C12": dict(
        families=[dict(name="lock")],
        level_text="Theorems C12_mutex, C12_refused_clean, C12_released, C12_quiescent_unlocked, C12_bounded over a "
                   "transition system of any number of dud processes with arbitrary interleaving (atomic O_EXCL acquire, "
                   "release of the path that was locked, pull's unlock/relock, config get/set without chdir), plus "
                   "C12_prerepair_refuted (the cwd-relative release leaves the lock behind). proof, partial: OS scheduling "
                   "and O_EXCL atomicity are assumptions. Tied to the code by running every subcommand x invocation "
                   "directory x outcome class x pre-existing lock and comparing exit class and lock presence with the model, "
                   "and by N concurrent `dud run` released together with an atomic-mkdir sentinel in the stage command.",
        level_note="The descriptor table (which subcommand locks, chdirs, relocks) is asserted in Model/Lock.v and checked "
                   "against src/cmd through the matrix runs. Killed processes are outside the property.",
        assumptions=["open(O_CREAT|O_EXCL) is atomic", "a process is not killed (exits on its own)"],
    ),
    "C13": dict(
        families=[dict(name="pool", timeout=1500)],
        level_text="Theorems C13_flat_terminates (every schedule of one directory level has at most 5N+4 steps), "
                   "C13_flat_progress / C13_flat_can_finish (no deadlock with >= 1 dedicated worker even if the shared "
                   "pool is never available), C13_stuck_without_dedicated, C13_flat_joined, C13_flat_tokens, "
                   "C13_flat_result, C13_exec_total / C13_exec_result_sound / C13_exec_top_level (trees) over a labelled "
                   "transition system of feeder, collector, spawner and workers with errgroup cancellation, for every N, "
                   "S >= 0, D >= 1 and every step sequence. proof, partial: the counter abstraction carries no data; "
                   "'same result as sequential' is the correspondence of the sequential model of Model/Cache.v with the "
                   "real binary run under pool sizes {0,1,2,64} x {1,2}, GOMAXPROCS {1,2,4,16}, deep chains and wide "
                   "directories beyond the pool, and an un-committable entry at random positions, with a watchdog.",
        level_note="Data races and goroutine leaks are not proved and, through the CLI, not observed; Go channel/select/"
                   "errgroup semantics are as modelled in Model/Sched.v. Pool sizes are set through the verif build-tag hook.",
        assumptions=["instances interact only through the shared-token counter and downward cancellation",
                     "Go channel, select and errgroup semantics as modelled"],
    ),
}
