#!/usr/bin/env python3
"""Regenerates MANIFEST.json from lib/props.py (claimed checks) and properties.jsonl."""
import json, os, sys
here = os.path.dirname(os.path.abspath(__file__))
sys.path.insert(0, here)
import props
root = os.path.dirname(here)
ids = [json.loads(l)["id"] for l in open(os.path.join(root, "properties.jsonl")) if l.strip()]
checks, na = [], []
for i in ids:
    P = props.PROPS.get(i)
    if not P or not P.get("claimed", True):
        na.append(dict(property_id=i, reason=(P or {}).get("na_reason", "check not built yet in this round (see DESIGN.md section 6 for the plan)")))
        continue
    checks.append(dict(
        property_id=i,
        quick_cmd="./check %s --tier quick" % i,
        thorough_cmd="./check %s --tier thorough" % i,
        evidence_file="evidence/%s.json" % i,
        replay_cmd_template="./check %s --replay {path}" % i,
        engine="coq-model+correspondence",
        level_claimed=dict(category="proof", text=P["level_text"], design_ref="DESIGN.md section 6 / " + i),
        level_note=P["level_note"],
        technique=P.get("technique", "Rocq (Coq 8.16) theorems over a hand-written executable model + differential correspondence check against the rebuilt implementation"),
    ))
man = dict(
    version=1,
    setup_cmd="bash ./setup.sh",
    hooks=dict(guard="verif", enable="go build -tags verif (every check builds dud and the harness from /repo's working tree with the tag)",
               baseline_off_cmd=props.BASELINE_OFF, source_commits=props.HOOK_COMMITS, add_only=True),
    engines=[dict(name="coq-model+correspondence", path="coq/ harness/ check",
                  serves_properties=[c["property_id"] for c in checks],
                  kind_free_text="machine-checked proofs in Coq 8.16.1 over a hand-written Gallina model; the model is tied to the code by a correspondence check (generated cases evaluated with vm_compute against observations of the rebuilt binary/library)")],
    checks=checks,
    notes="See DESIGN.md. known_findings.json lists genuine defects (open / fixed).",
    not_applicable=na,
)
json.dump(man, open(os.path.join(root, "MANIFEST.json"), "w"), indent=1)
print("claimed", len(checks), "not_applicable", len(na))
